#!/bin/bash
# Builds /verif/bin/vcgen offline from /verif/vcgen with go1.26.8 and x/tools v0.50.0 (both cached in the sandbox).
set -e
cd "$(dirname "$0")/vcgen"
export GOFLAGS=-mod=mod GOPROXY=off GOTOOLCHAIN=local
unset GOSUMDB
mkdir -p ../bin
go1.26 build -o ../bin/vcgen .
echo "built $(cd .. && pwd)/bin/vcgen"
