#!/usr/bin/env python3
# usage: addfinding.py PROPERTY OBLIGATION FUNCTION COMMIT WITNESS WHAT   (status fixed)
import json,sys
p='/verif/known_findings.json'
k=json.load(open(p))
prop,ob,fn,commit,wit,what=sys.argv[1:7]
k['findings'].append({"property":prop,"obligation":ob,"function":fn,"exclude":"","status":"fixed","commit":commit,
  "witness":wit,"what_fails":"fixed: property=%s %s %s"%(prop,commit,what)})
json.dump(k,open(p,'w'),indent=1)
