#!/usr/bin/env python3
"""Regenerates the generated tables of DESIGN.md (between the GENERATED markers) from
/verif/evidence/*.json, /verif/seeded/*/meta.json and /verif/known_findings.json."""
import json, glob, os, re
V = os.path.dirname(os.path.dirname(os.path.abspath(__file__)))
claims = json.load(open(V + "/tools/claims.json"))

def scope():
    out = []
    for f in sorted(glob.glob(V + "/evidence/C*.json")):
        e = json.load(open(f)); c = e["coverage"]; pid = e["property_id"]
        out.append(f"#### {pid}  ({c['obligations']} obligations, {c['discharged']} discharged; solver wall {c.get('solver_wall_s','?')} s; back ends {', '.join(f'{k}: {v}' for k, v in sorted(c['backends'].items()))})\n")
        out.append("| function under contract | mode | abstracted | loops (with invariant) | termination | obligations |")
        out.append("|---|---|---|---|---|---|")
        for fn in c["functions_under_contract"]:
            name = fn["function"].replace("github.com/parquet-go/parquet-go", "pq")
            out.append(f"| `{name}` | {fn['integer_mode']}{' (purego)' if 'purego' in fn.get('build_tags','') else ''} | {'yes' if fn['abstracted_mode'] else 'no'} | {fn['loops']} ({fn['loops_with_invariant']}) | {'proved' if fn['termination_proved'] and fn['loops'] else ('-' if not fn['loops'] else 'not claimed')} | {fn['obligations']} |")
        if c.get("lemmas"):
            out.append("\nLemmas: " + ", ".join(f"`{l}`" if isinstance(l, str) else f"`{l.get('name', l)}`" for l in c["lemmas"]))
        tb = [t for t in c.get("trusted_base", []) if "assumed contract used" in t]
        if tb:
            out.append("\nAssumed (trusted) contracts used at call sites: " + "; ".join("`" + t.split(" (")[0].replace("github.com/parquet-go/parquet-go", "pq") + "`" for t in sorted(set(tb))))
        if c.get("bounded_standins"):
            out.append("\nBounded stand-ins (thorough tier, never counted as proved): " + "; ".join(f"`{b.get('function', b)}`" if isinstance(b, dict) else str(b) for b in c["bounded_standins"]))
        out.append("")
    return "\n".join(out)

def seeds():
    out = ["| seed | property | change (file) | caught on first run | caught now | obligation that reports it |", "|---|---|---|---|---|---|"]
    for d in sorted(glob.glob(V + "/seeded/*/meta.json")):
        m = json.load(open(d))
        first = m.get("caught_first_run", m.get("caught", False))
        now = m.get("caught_now", m.get("caught", False))
        ob = ""
        vs = m.get("violations_now") or []
        if vs:
            ob = vs[0].split("obligation=")[-1].replace(" no-failing-input-found", "")
        elif m.get("caught") and m.get("check_output_tail"):
            mm = re.search(r"obligation=(\S+)", m["check_output_tail"])
            ob = mm.group(1) if mm else ""
        files = ", ".join(m.get("files_changed") or [])
        out.append(f"| {m['id']} | {m['property']} | {files} | {'yes' if first else 'no'} | {'yes' if now else '**no**'} | `{ob}` |")
    return "\n".join(out)

def findings():
    k = json.load(open(V + "/known_findings.json"))
    out = ["| property | status | commit | obligation | what failed |", "|---|---|---|---|---|"]
    for f in k["findings"]:
        out.append(f"| {f['property']} | {f['status']} | {f.get('commit') or '-'} | `{f['obligation'][:110]}` | {f['witness'][:260]} |")
    return "\n".join(out)

p = V + "/DESIGN.md"
s = open(p).read()
for tag, fn in (("scope", scope), ("seeds", seeds), ("findings", findings)):
    b, e = f"<!-- BEGIN GENERATED:{tag} -->", f"<!-- END GENERATED:{tag} -->"
    if b in s:
        i, j = s.index(b) + len(b), s.index(e)
        s = s[:i] + "\n" + fn() + "\n" + s[j:]
open(p, "w").write(s)
print("DESIGN.md tables regenerated")
