#!/bin/bash
# Creates a scratch worktree of /repo HEAD for a sub-agent, without the contract files
# (sub-agents get nothing from the verification side).  usage: mkwt.sh <dir>
set -e
d="$1"
git -C /repo worktree add --detach "$d" HEAD -q
cd "$d"
for f in $(git ls-files | grep 'contracts_verif.go$'); do git update-index --skip-worktree "$f"; rm -f "$f"; done
git status --short | head
