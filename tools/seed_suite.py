#!/usr/bin/env python3
"""Runs the repository's test suite against seeded changes (each in its own scratch
worktree of /repo under /tmp/ws, removed afterwards) and records the outcome in
/verif/seeded/<id>/meta.json.   usage: seed_suite.py <id>..."""
import json, os, subprocess, sys, shutil
from concurrent.futures import ThreadPoolExecutor
env = dict(os.environ, GOFLAGS="-mod=mod", GOPROXY="off")
env.pop("GOSUMDB", None); env.pop("GOTOOLCHAIN", None)
def one(sid):
    wt = f"/tmp/ws/{sid}"
    os.makedirs("/tmp/ws", exist_ok=True)
    subprocess.run(f"git -C /repo worktree remove --force {wt}", shell=True, capture_output=True)
    subprocess.run(f"git -C /repo worktree add --detach {wt} HEAD", shell=True, capture_output=True, check=True)
    try:
        p = subprocess.run(f"git apply /verif/seeded/{sid}/patch.diff", shell=True, cwd=wt, capture_output=True, text=True)
        if p.returncode != 0:
            return sid, "patch does not apply: " + p.stderr
        cmd = "go build ./... && go test -vet=off -count=1 -timeout 25m ./... 2>&1 | grep -E '^(--- FAIL|FAIL|ok|panic)'"
        p = subprocess.run(cmd, shell=True, cwd=wt, env=env, capture_output=True, text=True)
        out = p.stdout + p.stderr
        fails = [l for l in out.splitlines() if l.startswith("--- FAIL")]
        unexpected = [l for l in fails if "TestOpenFile" not in l]
        pk = [l for l in out.splitlines() if l.startswith("FAIL\t")]
        oks = len([l for l in out.splitlines() if l.startswith("ok")])
        res = {"failed_tests": fails, "unexpected": unexpected, "failed_packages": pk, "ok_packages": oks}
        mp = f"/verif/seeded/{sid}/meta.json"
        m = json.load(open(mp)); m["suite_with_change"] = res
        m.setdefault("what_i_ran", []).append({"cmd": "go build ./... && go test -vet=off -count=1 -timeout 25m ./...  [change applied, scratch worktree]", "exit": 0 if not unexpected else 1})
        json.dump(m, open(mp, "w"), indent=1)
        return sid, res
    finally:
        subprocess.run(f"git -C /repo worktree remove --force {wt}", shell=True, capture_output=True)
        shutil.rmtree(f"/tmp/ws/cache-{sid}", ignore_errors=True)
with ThreadPoolExecutor(3) as ex:
    for sid, res in ex.map(one, sys.argv[1:]):
        print(sid, json.dumps(res)[:400], flush=True)
