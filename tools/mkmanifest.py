#!/usr/bin/env python3
"""Regenerates /verif/MANIFEST.json from tools/claims.json and the contract
files in /repo (a property is claimed iff claims.json has an entry for it)."""
import json, os, subprocess, sys

V = os.path.dirname(os.path.dirname(os.path.abspath(__file__)))
claims = json.load(open(os.path.join(V, "tools", "claims.json")))
props = [json.loads(l) for l in open(os.path.join(V, "properties.jsonl"))]

def hook_commits():
    try:
        out = subprocess.check_output(["git", "-C", "/repo", "log", "--format=%H %s"], text=True)
    except Exception:
        return []
    return [l.split()[0] for l in out.splitlines() if l.split(" ", 1)[1].startswith("verif:")]

checks, na = [], []
for p in props:
    pid = p["id"]
    c = claims.get(pid)
    if c and c.get("claimed"):
        checks.append({
            "property_id": pid,
            "quick_cmd": f"./check {pid} quick",
            "thorough_cmd": f"./check {pid} thorough",
            "evidence_file": f"/verif/evidence/{pid}.json",
            "replay_cmd_template": "./check replay {path}",
            "engine": "vcgen",
            "level_claimed": {"category": "proof", "text": c["text"], "design_ref": c.get("design_ref", "DESIGN.md §4 " + pid)},
            "level_note": c["note"],
            "technique": c.get("technique", "contract-based deductive verification: weakest-precondition-style VCs generated from go/ssa of the real functions against //@ contracts, discharged by z3/cvc5"),
        })
    else:
        na.append({"property_id": pid, "reason": (c or {}).get("reason", "no contract within reach of this machinery decides it in this revision")})

m = {
    "version": 1,
    "setup_cmd": "./setup.sh",
    "hooks": {
        "guard": "verif",
        "enable": "-tags verif (only makes the comment-only contracts_verif.go files part of their packages; they contain a package clause and //@ comments, no declarations)",
        "baseline_off_cmd": "cd /repo && go test -vet=off -count=1 -timeout 25m ./...",
        "source_commits": hook_commits(),
        "add_only": True,
    },
    "engines": [{
        "name": "vcgen",
        "path": "/verif/vcgen",
        "serves_properties": [c["property_id"] for c in checks],
        "kind_free_text": "verification-condition generator written for this task: loads /repo's working tree with go/packages, lowers the functions under contract to go/ssa, cuts loops at their invariants, replaces calls by callee contracts, emits one SMT-LIB query per obligation (postconditions, invariants, callee preconditions, frame, bounds/nil/overflow safety) and races z3 5.1.0, z3 4.8.12 and cvc5 1.0.3",
    }],
    "checks": checks,
    "not_applicable": na,
    "notes": "Exit codes of ./check: 0 all claimed obligations discharged (known findings printed as KNOWN-FINDING lines); 1 at least one VIOLATION line; 2 the check itself is broken (contradictory contract, solver/toolchain error). See DESIGN.md.",
}
json.dump(m, open(os.path.join(V, "MANIFEST.json"), "w"), indent=1)
print("claimed:", [c["property_id"] for c in checks])
