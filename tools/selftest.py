#!/usr/bin/env python3
# Must-fail self-test: every mutant of selftest/mutants.json is applied to a scratch
# copy of /repo (outside /repo and /verif, removed afterwards); the property's check
# must exit 1 and report the expected obligation.  Mutants run SELFTEST_JOBS at a
# time (default 4), each worker in its own scratch copy.
import json, os, shutil, subprocess, sys, tempfile, threading, queue
V = os.path.dirname(os.path.dirname(os.path.abspath(__file__)))
muts = json.load(open(os.path.join(V, "selftest", "mutants.json")))
want = set(sys.argv[1:])
env = dict(os.environ, GOFLAGS="-mod=mod", GOPROXY="off", GOTOOLCHAIN="auto")
env.pop("GOSUMDB", None)
todo = [m for m in muts if not want or m["property"] in want or m["id"] in want]
jobs = max(1, min(int(os.environ.get("SELFTEST_JOBS", "4")), len(todo) or 1))
scratch = tempfile.mkdtemp(prefix="vcgen-selftest-")
q = queue.Queue()
for m in todo:
    q.put(m)
bad = 0
lock = threading.Lock()


def worker(k):
    global bad
    repo = os.path.join(scratch, f"repo{k}")
    work = os.path.join(scratch, f"verif{k}")
    subprocess.check_call(["rsync", "-a", "--exclude", ".git", "--exclude", "testdata", "/repo/", repo + "/"])
    os.makedirs(work, exist_ok=True)
    while True:
        try:
            m = q.get_nowait()
        except queue.Empty:
            return
        path = os.path.join(repo, m["file"])
        src = open(path).read()
        if src.count(m["old"]) < 1:
            with lock:
                print(f"SELFTEST {m['id']}: pattern not found in {m['file']} (corpus out of date)", flush=True)
                bad += 1
            continue
        open(path, "w").write(src.replace(m["old"], m["new"], 1))
        try:
            p = subprocess.run([os.path.join(V, "bin", "vcgen"), "check", "-repo", repo, "-verif", V, "-work", work, "-evidence=false",
                                "-property", m["property"]], capture_output=True, text=True, env=env, timeout=2400)
            out = p.stdout
            viol = [l for l in out.splitlines() if l.startswith("VIOLATION")]
            ok = p.returncode == 1 and viol and (not m["expect"] or any(m["expect"] in l for l in viol))
            with lock:
                print(f"SELFTEST {m['id']}: {'caught' if ok else 'MISSED'} exit={p.returncode} {viol[0][:160] if viol else out[-200:]}", flush=True)
                if not ok:
                    bad += 1
        except subprocess.TimeoutExpired:
            with lock:
                print(f"SELFTEST {m['id']}: MISSED (check timed out)", flush=True)
                bad += 1
        finally:
            open(path, "w").write(src)


try:
    ts = [threading.Thread(target=worker, args=(k,)) for k in range(jobs)]
    for t in ts:
        t.start()
    for t in ts:
        t.join()
finally:
    shutil.rmtree(scratch, ignore_errors=True)
print(f"selftest: {bad} mutants not caught as expected")
sys.exit(1 if bad else 0)
