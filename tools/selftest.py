#!/usr/bin/env python3
import json, os, shutil, subprocess, sys, tempfile
V = os.path.dirname(os.path.dirname(os.path.abspath(__file__)))
muts = json.load(open(os.path.join(V, "selftest", "mutants.json")))
want = set(sys.argv[1:])
env = dict(os.environ, GOFLAGS="-mod=mod", GOPROXY="off", GOTOOLCHAIN="auto")
env.pop("GOSUMDB", None)
scratch = tempfile.mkdtemp(prefix="vcgen-selftest-")
bad = 0
try:
    repo = os.path.join(scratch, "repo")
    subprocess.check_call(["rsync", "-a", "--exclude", ".git", "--exclude", "testdata", "/repo/", repo + "/"])
    for m in muts:
        if want and m["property"] not in want and m["id"] not in want:
            continue
        path = os.path.join(repo, m["file"])
        src = open(path).read()
        if src.count(m["old"]) < 1:
            print(f"SELFTEST {m['id']}: pattern not found in {m['file']} (corpus out of date)")
            bad += 1
            continue
        open(path, "w").write(src.replace(m["old"], m["new"], 1))
        work = os.path.join(scratch, "verif")
        os.makedirs(work, exist_ok=True)
        try:
            p = subprocess.run([os.path.join(V, "bin", "vcgen"), "check", "-repo", repo, "-verif", V, "-work", work, "-evidence=false",
                                "-property", m["property"]], capture_output=True, text=True, env=env, timeout=1800)
            out = p.stdout
            viol = [l for l in out.splitlines() if l.startswith("VIOLATION")]
            ok = p.returncode == 1 and viol and (not m["expect"] or any(m["expect"] in l for l in viol))
            print(f"SELFTEST {m['id']}: {'caught' if ok else 'MISSED'} exit={p.returncode} {viol[0][:160] if viol else out[-200:]}")
            if not ok:
                bad += 1
        finally:
            open(path, "w").write(src)
finally:
    shutil.rmtree(scratch, ignore_errors=True)
print(f"selftest: {bad} mutants not caught as expected")
sys.exit(1 if bad else 0)
