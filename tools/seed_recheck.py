#!/usr/bin/env python3
"""Re-runs the property's quick check against every seeded change kept under
/verif/seeded, each applied to a scratch copy of /repo's working tree (outside
/repo and /verif, removed afterwards), and records in each meta.json whether the
present checks catch it.  SEED_JOBS workers (default 5), each with its own copy.
usage: seed_recheck.py [id...]"""
import json, os, subprocess, sys, glob, tempfile, shutil, threading, queue
ids = sys.argv[1:] or sorted(os.path.basename(d) for d in glob.glob("/verif/seeded/*-s*"))
env = dict(os.environ, GOFLAGS="-mod=mod", GOPROXY="off", GOTOOLCHAIN="auto")
env.pop("GOSUMDB", None)
scratch = tempfile.mkdtemp(prefix="vcgen-seeds-")
q = queue.Queue()
for sid in ids:
    q.put(sid)
lock = threading.Lock()
jobs = max(1, min(int(os.environ.get("SEED_JOBS", "5")), len(ids)))


def worker(k):
    repo = os.path.join(scratch, f"repo{k}")
    work = os.path.join(scratch, f"work{k}")
    subprocess.check_call(["rsync", "-a", "--exclude", ".git", "--exclude", "testdata", "/repo/", repo + "/"])
    subprocess.check_call("git init -q && git add -A && git -c user.email=x@x -c user.name=x commit -qm base", shell=True, cwd=repo)
    while True:
        try:
            sid = q.get_nowait()
        except queue.Empty:
            return
        d = f"/verif/seeded/{sid}"
        m = json.load(open(d + "/meta.json"))
        prop = m["property"]
        a = subprocess.run(f"git apply {d}/patch.diff", shell=True, cwd=repo, capture_output=True, text=True)
        if a.returncode != 0:
            with lock:
                print(sid, "patch does not apply:", a.stderr.strip(), flush=True)
            continue
        try:
            p = subprocess.run(["/verif/bin/vcgen", "check", "-repo", repo, "-verif", "/verif", "-work", work, "-evidence=false", "-property", prop],
                               capture_output=True, text=True, env=env, timeout=3600)
        finally:
            subprocess.run("git checkout -q . && git clean -fdq", shell=True, cwd=repo, check=True)
        viol = [l for l in p.stdout.splitlines() if l.startswith("VIOLATION")]
        with lock:
            m = json.load(open(d + "/meta.json"))
            m["caught_first_run"] = m.get("caught_first_run", m.get("caught", False))
            m["caught_now"] = p.returncode == 1 and bool(viol)
            m["violations_now"] = [l.replace(scratch, "<scratch>").replace(f"/work{k}/", "/work/")[:400] for l in viol]
            m["recheck_exit"] = p.returncode
            json.dump(m, open(d + "/meta.json", "w"), indent=1)
            print(sid, "first_run=%s now=%s" % (m["caught_first_run"], m["caught_now"]), (viol[0].split("obligation=")[-1][:120] if viol else p.stdout[-200:]), flush=True)


try:
    ts = [threading.Thread(target=worker, args=(k,)) for k in range(jobs)]
    for t in ts:
        t.start()
    for t in ts:
        t.join()
finally:
    shutil.rmtree(scratch, ignore_errors=True)
