#!/usr/bin/env python3
"""Re-runs the property's quick check against every seeded change kept under
/verif/seeded (applied to /repo, undone straight afterwards) and records in each
meta.json whether the present checks catch it.  usage: seed_recheck.py [id...]"""
import json, os, subprocess, sys, glob
ids = sys.argv[1:] or sorted(os.path.basename(d) for d in glob.glob("/verif/seeded/*-s*"))
st = subprocess.run("git -C /repo status --porcelain", shell=True, capture_output=True, text=True).stdout.strip()
if st:
    sys.exit("refusing: /repo has uncommitted changes:\n" + st)
for sid in ids:
    d = f"/verif/seeded/{sid}"
    m = json.load(open(d + "/meta.json"))
    prop = m["property"]
    a = subprocess.run(f"git -C /repo apply {d}/patch.diff", shell=True, capture_output=True, text=True)
    if a.returncode != 0:
        print(sid, "patch does not apply:", a.stderr.strip()); continue
    try:
        p = subprocess.run(f"VERIF_NO_EVIDENCE=1 ./check {prop} quick", shell=True, cwd="/verif", capture_output=True, text=True, timeout=3600)
    finally:
        subprocess.run(f"git -C /repo apply -R {d}/patch.diff", shell=True, check=True)
    viol = [l for l in p.stdout.splitlines() if l.startswith("VIOLATION")]
    m["caught_first_run"] = m.get("caught_first_run", m.get("caught", False))
    m["caught_now"] = p.returncode == 1 and bool(viol)
    m["violations_now"] = [l[:400] for l in viol]
    m["recheck_exit"] = p.returncode
    json.dump(m, open(d + "/meta.json", "w"), indent=1)
    print(sid, "first_run=%s now=%s" % (m["caught_first_run"], m["caught_now"]), (viol[0].split("obligation=")[-1][:120] if viol else p.stdout[-200:]), flush=True)
