#!/usr/bin/env python3
"""Confirms a sub-agent's seeded change in its scratch worktree, stores it under
/verif/seeded/<id>/ and runs the property's check against it.

usage: seed_eval.py <worktree> <seed-id> [--no-suite]
"""
import json, os, shutil, subprocess, sys

wt, sid = sys.argv[1], sys.argv[2]
no_suite = "--no-suite" in sys.argv
env = dict(os.environ, GOFLAGS="-mod=mod", GOPROXY="off")
env.pop("GOSUMDB", None); env.pop("GOTOOLCHAIN", None)
out = os.path.join(wt, "_out")
meta = json.load(open(os.path.join(out, "meta.json")))
prop = meta["property"]
dest = f"/verif/seeded/{sid}"
os.makedirs(dest, exist_ok=True)
patch = os.path.join(out, "patch.diff")

def sh(cmd, cwd=wt, timeout=1800):
    p = subprocess.run(cmd, shell=True, cwd=cwd, env=env, capture_output=True, text=True, timeout=timeout)
    return p.returncode, (p.stdout + p.stderr)

ran = []
# state: worktree has the change applied
rc, diff = sh("git diff -- . ':!**/contracts_verif.go' ':!contracts_verif.go'")
status_applied = bool(diff.strip())
if not status_applied:
    rc, o = sh(f"git apply {patch}")
    ran.append(("git apply patch.diff", rc))
demo_dir = os.path.join(wt, meta.get("demo_package_dir", ".") or ".")
demo_dst = os.path.join(demo_dir, "zz_seed_demo_test.go")
shutil.copy(os.path.join(out, "demo_test.go"), demo_dst)
tags = meta.get("tags", "") or ""
tagflag = f"-tags {tags}" if tags else ""
rel = os.path.relpath(demo_dir, wt)
import re as _re
names = _re.findall(r"^func (Test\w+)\(", open(os.path.join(out, "demo_test.go")).read(), _re.M)
demo_cmd = f"go test -vet=off -count=1 -timeout 600s {tagflag} -run '^({'|'.join(names)})$' ./{rel}/"
rc_with, o_with = sh(demo_cmd)
ran.append((demo_cmd + "  [change applied]", rc_with))
rc, o = sh(f"git apply -R {patch}")
rc_without, o_without = sh(demo_cmd)
ran.append((demo_cmd + "  [change reverted]", rc_without))
sh(f"git apply {patch}")
os.remove(demo_dst)
suite = "not re-run"
if not no_suite:
    rc_s, o_s = sh("go build ./... && go test -vet=off -count=1 -timeout 25m ./... 2>&1 | grep -E '^(--- FAIL|FAIL|ok|panic)' ")
    fails = [l for l in o_s.splitlines() if l.startswith("--- FAIL")]
    unexpected = [l for l in fails if "TestOpenFile" not in l]
    pk_fail = [l for l in o_s.splitlines() if l.startswith("FAIL\t")]
    suite = {"failed_tests": fails, "unexpected": unexpected, "failed_packages": pk_fail}
    ran.append(("go build ./... && go test -vet=off -count=1 -timeout 25m ./...  [change applied]", rc_s))
confirmed = rc_with != 0 and rc_without == 0 and (no_suite or not suite["unexpected"])
# run the check against /repo with the change
shutil.copy(patch, os.path.join(dest, "patch.diff"))
shutil.copy(os.path.join(out, "demo_test.go"), os.path.join(dest, "demo_test.go"))
# the check is run against a scratch copy of /repo with the change (tools/seed_recheck.py)
check_out, check_rc = "", None
meta_out = {
    "id": sid, "property": prop, "breaks": meta.get("what_breaks"), "needs_to_manifest": meta.get("needs_to_manifest"),
    "files_changed": meta.get("files_changed"), "demo_package_dir": meta.get("demo_package_dir"), "tags": tags,
    "confirmed": confirmed,
    "what_i_ran": [{"cmd": c, "exit": r} for c, r in ran],
    "demo_with_change_tail": o_with[-600:], "demo_without_change_tail": o_without[-300:],
    "suite_with_change": suite,
    "check_exit": check_rc, "check_output_tail": check_out[-1500:],
    "caught": check_rc == 1,
}
meta_out.pop("caught", None)
json.dump(meta_out, open(os.path.join(dest, "meta.json"), "w"), indent=1)
p = subprocess.run(["python3", "/verif/tools/seed_recheck.py", sid], capture_output=True, text=True)
m = json.load(open(os.path.join(dest, "meta.json")))
m["caught"] = m.get("caught_now", False)          # result of the first run of the check against this change
m["caught_first_run"] = m["caught"]
json.dump(m, open(os.path.join(dest, "meta.json"), "w"), indent=1)
print(json.dumps({k: m.get(k) for k in ("id", "property", "confirmed", "caught")}))
print(p.stdout[-400:])
