#!/bin/bash
# usage: tools/mut.sh <file-in-repo> <python-replace-old> <python-replace-new> <prop>   (applies edit, runs check, reverts)
f="$1"; old="$2"; new="$3"; prop="$4"
cd /repo || exit 2
python3 - "$f" "$old" "$new" <<'PY'
import sys
f,old,new=sys.argv[1:4]
s=open(f).read()
if s.count(old)<1:
    print("MUT: pattern not found"); sys.exit(3)
open(f,'w').write(s.replace(old,new,1))
PY
[ $? -eq 0 ] || exit 3
GOTOOLCHAIN=auto go build ./... 2>&1 | head -3
cd /verif && VERIF_NO_EVIDENCE=1 ./check "$prop" quick | grep -E "VIOLATION|property=|BROKEN" | cut -c1-220
git -C /repo checkout -- "$f"
