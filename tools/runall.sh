#!/bin/bash
# Runs every claimed property's check (default: quick) on /repo's working tree, 4 at a time,
# rewriting /verif/evidence/<id>.json.  usage: tools/runall.sh [quick|thorough]
cd "$(dirname "$0")/.."
tier="${1:-quick}"
props=$(python3 -c "import json;print(' '.join(c['property_id'] for c in json.load(open('MANIFEST.json'))['checks']))" 2>/dev/null)
[ -z "$props" ] && props=$(python3 -c "import json;print(' '.join(sorted(json.load(open('tools/claims.json')).keys())))")
mkdir -p work/runall
printf '%s\n' $props | xargs -P 4 -I{} sh -c "./check {} $tier > work/runall/{}.$tier.log 2>&1; echo {} exit=\$? \$(tail -1 work/runall/{}.$tier.log)"
