#!/bin/bash
# Runs a demonstration test from /verif/findings (or any external `package scratch`
# test file) against a repository tree, in a throw-away module outside /repo and /verif.
# usage: tools/rundemo.sh <test.go> [repo-dir]
set -e
t="$(readlink -f "$1")"; repo="${2:-/repo}"
d=$(mktemp -d /tmp/rundemo-XXXXXX); trap 'rm -rf "$d"' EXIT
export GOFLAGS=-mod=mod GOPROXY=off; unset GOSUMDB GOTOOLCHAIN
if grep -q '^package scratch' "$t"; then
  cp "$t" "$d/demo_test.go"; cp "$repo/go.sum" "$d/"
  gov=$(grep '^go ' "$repo/go.mod"); tc=$(grep '^toolchain ' "$repo/go.mod" || true)
  printf 'module scratch\n%s\n%s\nrequire github.com/parquet-go/parquet-go v0.0.0\nreplace github.com/parquet-go/parquet-go => %s\n' "$gov" "$tc" "$repo" > "$d/go.mod"
  (cd "$d" && go test ${RUNDEMO_FLAGS:-} -vet=off -count=1 -timeout 300s ./... 2>&1 | tail -${RUNDEMO_TAIL:-15})
else
  pkgdir=$(grep -m1 '^// dir:' "$t" | sed 's/^\/\/ dir: *//'); pkgdir="${pkgdir:-.}"
  printf '{"Replace":{"%s/%s/zz_demo_test.go":"%s"}}' "$repo" "$pkgdir" "$t" > "$d/ov.json"
  (cd "$repo" && go test -overlay "$d/ov.json" -vet=off -count=1 -timeout 300s -run 'TestD[0-9]' "./$pkgdir" 2>&1 | tail -15)
fi
