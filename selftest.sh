#!/bin/bash
# Must-fail self-test: every mutant of selftest/mutants.json is applied to a
# scratch copy of /repo (outside /repo and /verif, removed afterwards); the
# property's check must exit 1 and report the expected obligation.
# usage: ./selftest.sh [property ...]
cd "$(dirname "$0")"
exec python3 tools/selftest.py "$@"
