package scratch

import (
	"bytes"
	"testing"

	"github.com/parquet-go/parquet-go"
)

type RD49 struct {
	V int64 `parquet:"v,dict"`
}

// D49 (C08): a page reader opened without the page index numbers the first data page
// 1 after a seek when the chunk has a dictionary page (SeekToRow without an offset
// index set index = 1).  When the offset index is loaded later (ColumnChunk.OffsetIndex
// loads it lazily and keeps it), the indexed seek path compares that numbering with
// real page numbers: it took page 1 for the page just read and served the cached
// page 0 sliced at the offset meant for page 1.
func TestD49OffsetIndexLoadedMidStream(t *testing.T) {
	var out bytes.Buffer
	w := parquet.NewGenericWriter[RD49](&out, parquet.PageBufferSize(128))
	rows := make([]RD49, 400)
	for i := range rows {
		rows[i].V = int64(i)
	}
	w.Write(rows)
	if err := w.Close(); err != nil {
		t.Fatal(err)
	}
	f, err := parquet.OpenFile(bytes.NewReader(out.Bytes()), int64(out.Len()), parquet.SkipPageIndex(true))
	if err != nil {
		t.Fatal(err)
	}
	chunk := f.RowGroups()[0].ColumnChunks()[0]
	pages := chunk.Pages()
	defer pages.Close()
	if err := pages.SeekToRow(0); err != nil {
		t.Fatal(err)
	}
	first, err := pages.ReadPage()
	if err != nil {
		t.Fatal(err)
	}
	n := first.NumRows()
	parquet.Release(first)
	if _, err := chunk.OffsetIndex(); err != nil { // loads the index and keeps it
		t.Fatal(err)
	}
	target := n + 1 // a row of the second page
	if err := pages.SeekToRow(target); err != nil {
		t.Fatal(err)
	}
	p, err := pages.ReadPage()
	if err != nil {
		t.Fatal(err)
	}
	vals := make([]parquet.Value, 1)
	p.Values().ReadValues(vals)
	if got := vals[0].Int64(); got != target {
		t.Errorf("SeekToRow(%d) after the offset index was loaded: first value read is %d", target, got)
	}
}
