package scratch

import (
	"bytes"
	"encoding/binary"
	"errors"
	"fmt"
	"io"
	"testing"

	"github.com/parquet-go/parquet-go"
	"github.com/parquet-go/parquet-go/format"
)

type RD28 struct {
	ID   int64  `parquet:"id"`
	Name string `parquet:"name"`
}

type keysD28 struct{ footer []byte }

func (k *keysD28) FooterKey([]byte) ([]byte, error)             { return k.footer, nil }
func (k *keysD28) ColumnKey([]string, []byte) ([]byte, error) { return k.footer, nil }

func readD28(data []byte, keys parquet.KeyRetriever) ([]RD28, error) {
	f, err := parquet.OpenFile(bytes.NewReader(data), int64(len(data)), parquet.WithDecryption(keys))
	if err != nil {
		return nil, fmt.Errorf("open: %w", err)
	}
	r := parquet.NewGenericReader[RD28](f)
	defer r.Close()
	var out []RD28
	buf := make([]RD28, 64)
	for {
		n, err := r.Read(buf)
		out = append(out, buf[:n]...)
		if errors.Is(err, io.EOF) {
			return out, nil
		}
		if err != nil {
			return out, err
		}
	}
}

// D28 (C18): a writer reused through Reset kept the random AAD file identifier of
// the previous file, so an encrypted module of the second file, moved to the same
// position of the first, authenticated and was returned as that file's data.
func TestD28ResetSharesFileUnique(t *testing.T) {
	for _, encFooter := range []bool{true, false} {
		keys := &keysD28{footer: bytes.Repeat([]byte{7}, 16)}
		cfg := &parquet.EncryptionConfig{FooterKey: keys.footer, EncryptedFooter: encFooter}
		a := new(bytes.Buffer)
		w := parquet.NewGenericWriter[RD28](a, parquet.WithEncryption(cfg))
		var rowsA, rowsB []RD28
		for i := 0; i < 50; i++ {
			rowsA = append(rowsA, RD28{ID: int64(1000 + i), Name: fmt.Sprintf("aaaa-%04d", i)})
			rowsB = append(rowsB, RD28{ID: int64(2000 + i), Name: fmt.Sprintf("bbbb-%04d", i)})
		}
		w.Write(rowsA)
		if err := w.Close(); err != nil {
			t.Fatal(err)
		}
		b := new(bytes.Buffer)
		w.Reset(b)
		w.Write(rowsB)
		if err := w.Close(); err != nil {
			t.Fatal(err)
		}
		A, B := a.Bytes(), b.Bytes()
		t.Logf("encFooter=%v len(A)=%d len(B)=%d", encFooter, len(A), len(B))
		f, err := parquet.OpenFile(bytes.NewReader(A), int64(len(A)), parquet.WithDecryption(keys))
		if err != nil {
			t.Fatal(err)
		}
		fb, err := parquet.OpenFile(bytes.NewReader(B), int64(len(B)), parquet.WithDecryption(keys))
		if err != nil {
			t.Fatal(err)
		}
		if !encFooter {
			ua := f.Metadata().EncryptionAlgorithm.Value.(*format.AesGcmV1).AadFileUnique
			ub := fb.Metadata().EncryptionAlgorithm.Value.(*format.AesGcmV1).AadFileUnique
			t.Logf("AadFileUnique A=%x B=%x equal=%v", ua, ub, bytes.Equal(ua, ub))
		}
		body := func(data []byte, file *parquet.File) (int64, int64) {
			off := file.Metadata().RowGroups[0].Columns[0].MetaData.DataPageOffset
			hdrLen := int64(binary.LittleEndian.Uint32(data[off:])) + 4
			bodyLen := int64(binary.LittleEndian.Uint32(data[off+hdrLen:])) + 4
			return off + hdrLen, bodyLen
		}
		offA, lenA := body(A, f)
		offB, lenB := body(B, fb)
		t.Logf("body module A@%d len %d, B@%d len %d", offA, lenA, offB, lenB)
		if lenA != lenB {
			t.Fatalf("body sizes differ")
		}
		mixed := append([]byte(nil), A...)
		copy(mixed[offA:offA+lenA], B[offB:offB+lenB])
		got, err := readD28(mixed, keys)
		if err != nil {
			t.Logf("encFooter=%v: transplant rejected: %v", encFooter, err)
			continue
		}
		t.Errorf("encFooter=%v: row group of file B transplanted into file A was ACCEPTED; first row read: %+v", encFooter, got[0])
	}
}

