package scratch

// D81 (C12), failed before the fix commit: a column added next to a REPEATED LEAF that
// sorts first by name among the direct leaves of the group borrows that
// repeated leaf as its level template (columnMappingGroup.lookupClosest picks
// the first direct leaf in name order, whatever its repetition). The added,
// non-repeated column then gets one value per list element (repetition level 1
// although its maximum is 0) instead of one null/zero per row; a file copied
// with CopyRows ends up with more values than rows in the added columns.
//
// Run from the repository root:
//   go test -vet=off -count=1 -timeout 600s -run TestD81RepeatedLeafTemplate .

import (
	"bytes"
	"errors"
	"io"
	"testing"

	"github.com/parquet-go/parquet-go"
)

type c12pre1Src struct {
	A  []int32
	ID int64
}

type c12pre1Dst struct {
	A   []int32
	ID  int64
	New *int32
	Req int32
}

func c12pre1File(t *testing.T) *parquet.File {
	buf := new(bytes.Buffer)
	w := parquet.NewGenericWriter[c12pre1Src](buf)
	if _, err := w.Write([]c12pre1Src{{A: []int32{1, 2, 3}, ID: 1}, {A: nil, ID: 2}, {A: []int32{4}, ID: 3}}); err != nil {
		t.Fatal(err)
	}
	if err := w.Close(); err != nil {
		t.Fatal(err)
	}
	f, err := parquet.OpenFile(bytes.NewReader(buf.Bytes()), int64(buf.Len()))
	if err != nil {
		t.Fatal(err)
	}
	return f
}

func TestD81RepeatedLeafTemplateRows(t *testing.T) {
	f := c12pre1File(t)
	target := parquet.SchemaOf(c12pre1Dst{})
	conv, err := parquet.Convert(target, f.Schema())
	if err != nil {
		t.Fatal(err)
	}
	rows := parquet.ConvertRowGroup(f.RowGroups()[0], conv).Rows()
	defer rows.Close()
	newCol, _ := target.Lookup("New")
	reqCol, _ := target.Lookup("Req")
	buf := make([]parquet.Row, 10)
	rowIndex := 0
	for {
		n, err := rows.ReadRows(buf)
		for _, row := range buf[:n] {
			counts := map[int]int{}
			for _, v := range row {
				counts[v.Column()]++
				if (v.Column() == newCol.ColumnIndex || v.Column() == reqCol.ColumnIndex) && v.RepetitionLevel() != 0 {
					t.Errorf("row %d: column %d: repetition level %d on a non-repeated column", rowIndex, v.Column(), v.RepetitionLevel())
				}
			}
			if counts[newCol.ColumnIndex] != 1 || counts[reqCol.ColumnIndex] != 1 {
				t.Errorf("row %d: New holds %d values, Req holds %d values, want 1 and 1", rowIndex, counts[newCol.ColumnIndex], counts[reqCol.ColumnIndex])
			}
			rowIndex++
		}
		if err != nil {
			if !errors.Is(err, io.EOF) {
				t.Fatal(err)
			}
			break
		}
	}
}

func TestD81RepeatedLeafTemplateCopy(t *testing.T) {
	f := c12pre1File(t)
	out := new(bytes.Buffer)
	w := parquet.NewGenericWriter[c12pre1Dst](out)
	rows := f.RowGroups()[0].Rows()
	defer rows.Close()
	if _, err := parquet.CopyRows(w, rows); err != nil {
		t.Fatal(err)
	}
	if err := w.Close(); err != nil {
		t.Fatal(err)
	}
	copied, err := parquet.OpenFile(bytes.NewReader(out.Bytes()), int64(out.Len()))
	if err != nil {
		t.Fatal(err)
	}
	for _, name := range []string{"New", "Req"} {
		leaf, _ := copied.Schema().Lookup(name)
		if n := copied.RowGroups()[0].ColumnChunks()[leaf.ColumnIndex].NumValues(); n != 3 {
			t.Errorf("column %s of the copy holds %d values for 3 rows", name, n)
		}
	}
}
