package scratch

import (
	"bytes"
	"testing"

	"github.com/parquet-go/parquet-go"
)

type RD27 struct {
	ID   int64  `parquet:"id"`
	Name string `parquet:"name"`
}

// D27 (C01): the first typed Write([]T) on a GenericWriter replaced every column
// writer's buffer with a new one, so rows already accepted by WriteRows (which
// creates the buffers lazily and leaves the rows buffered there) vanished from
// the file although every call, including Close, returned nil.
func TestD27WriteRowsThenTypedWrite(t *testing.T) {
	var out bytes.Buffer
	w := parquet.NewGenericWriter[RD27](&out)
	first := parquet.Row{parquet.Int64Value(1).Level(0, 0, 0), parquet.ByteArrayValue([]byte("one")).Level(0, 0, 1)}
	if n, err := w.WriteRows([]parquet.Row{first}); n != 1 || err != nil {
		t.Fatal(n, err)
	}
	if n, err := w.Write([]RD27{{ID: 2, Name: "two"}, {ID: 3, Name: "three"}}); n != 2 || err != nil {
		t.Fatal(n, err)
	}
	if err := w.Close(); err != nil {
		t.Fatal(err)
	}
	got, err := parquet.Read[RD27](bytes.NewReader(out.Bytes()), int64(out.Len()))
	if err != nil {
		t.Fatal(err)
	}
	want := []RD27{{1, "one"}, {2, "two"}, {3, "three"}}
	if len(got) != len(want) {
		t.Fatalf("read back %d rows %v, want %v", len(got), got, want)
	}
	for i := range want {
		if got[i] != want[i] {
			t.Errorf("row %d: %v, want %v", i, got[i], want[i])
		}
	}
}
