package scratch

import (
	"bytes"
	"testing"

	"github.com/parquet-go/parquet-go"
)

// D16 (C05, C06): optional FIXED_LEN_BYTE_ARRAY / UUID column with an all-null
// page inside a chunk: the column index gets no min/max entry for the null page, so
// min_values/max_values are shorter than null_pages and the bounds of every later
// page are attributed to the wrong page: a page search misses written values.
func TestD16SearchAfterNullPage(t *testing.T) {
	for _, kind := range []string{"flba", "uuid"} {
		size := 8
		node := parquet.Optional(parquet.Leaf(parquet.FixedLenByteArrayType(8)))
		if kind == "uuid" {
			size = 16
			node = parquet.Optional(parquet.UUID())
		}
		schema := parquet.NewSchema("t", parquet.Group{"v": node})
		valueOf := func(i int) parquet.Value {
			b := make([]byte, size)
			b[size-2], b[size-1] = byte(i>>8), byte(i)
			return parquet.FixedLenByteArrayValue(b)
		}
		var buf bytes.Buffer
		w := parquet.NewWriter(&buf, schema, parquet.PageBufferSize(256))
		var present []int
		// 100 values, 4000 nulls (several all-null pages), 300 values
		for i := 0; i < 4400; i++ {
			row := parquet.Row{parquet.NullValue().Level(0, 0, 0)}
			if i < 100 || i >= 4100 {
				row = parquet.Row{valueOf(i).Level(0, 1, 0)}
				present = append(present, i)
			}
			if _, err := w.WriteRows([]parquet.Row{row}); err != nil {
				t.Fatal(err)
			}
		}
		if err := w.Close(); err != nil {
			t.Fatal(err)
		}
		f, err := parquet.OpenFile(bytes.NewReader(buf.Bytes()), int64(buf.Len()))
		if err != nil {
			t.Fatal(err)
		}
		cc := f.RowGroups()[0].ColumnChunks()[0]
		ci, err := cc.ColumnIndex()
		if err != nil {
			t.Fatal(err)
		}
		oi, _ := cc.OffsetIndex()
		fci := f.ColumnIndexes()[0]
		nulls := 0
		for _, b := range fci.NullPages {
			if b {
				nulls++
			}
		}
		if nulls == 0 {
			t.Fatalf("%s: test setup: no all-null page among %d pages", kind, ci.NumPages())
		}
		if len(fci.MinValues) != len(fci.NullPages) || len(fci.MaxValues) != len(fci.NullPages) {
			t.Errorf("%s: column index has %d pages (%d all-null) but %d min and %d max values", kind, len(fci.NullPages), nulls, len(fci.MinValues), len(fci.MaxValues))
		}
		misses := 0
		for _, i := range present {
			func() {
				defer func() {
					if r := recover(); r != nil {
						misses++
						if misses <= 2 {
							t.Errorf("%s: search for the value of row %d panicked: %v", kind, i, r)
						}
					}
				}()
				p := parquet.Search(ci, valueOf(i), cc.Type())
				holder := 0
				for k := 0; k < oi.NumPages(); k++ {
					if oi.FirstRowIndex(k) <= int64(i) {
						holder = k
					}
				}
				if p > holder {
					misses++
					if misses <= 2 {
						t.Errorf("%s: value of row %d is in page %d but the page search returns %d of %d", kind, i, holder, p, ci.NumPages())
					}
				}
			}()
		}
		if misses > 0 {
			t.Errorf("%s: %d of %d written values are not found through the page index", kind, misses, len(present))
		}
	}
}
