package scratch
// D77 (C13): failed before the fix commit; see known_findings.json.

import (
	"bytes"
	"errors"
	"io"
	"testing"

	"github.com/parquet-go/parquet-go"
)

// Pre-existing C13 violation #2 (unchanged library).
//
// A row reader (RowGroup.Rows) which hits a corrupted page reports
// ErrCorrupted, but the values it had already taken out of the column reader
// for the failed batch are lost and its row index is left unchanged. A
// following SeekToRow to the row the reader says it is at is a no-op
// (rowGroupRows.SeekToRow: `if rowIndex != r.rowIndex`), so the column page
// reader, which has consumed the corrupted page and now sits on the next one,
// is not repositioned: the next ReadRows returns the rows of the FOLLOWING page
// as the rows at the seeked position, without any error. The same happens when
// ReadRows is simply called again after the error.
//
// i.e. a read which reaches the corrupted page after a seek returns different
// values without error.

type c13Pre2Row struct {
	ID int64 `parquet:"id"`
}

func TestD77RowsAfterCorruptionError(t *testing.T) {
	const numRows = 4000
	buf := new(bytes.Buffer)
	w := parquet.NewGenericWriter[c13Pre2Row](buf, parquet.PageBufferSize(2048))
	rows := make([]c13Pre2Row, numRows)
	for i := range rows {
		rows[i].ID = int64(i)*7 + 3
	}
	if _, err := w.Write(rows); err != nil {
		t.Fatal(err)
	}
	if err := w.Close(); err != nil {
		t.Fatal(err)
	}
	pristine := buf.Bytes()

	open := func(data []byte) parquet.RowGroup {
		f, err := parquet.OpenFile(bytes.NewReader(data), int64(len(data)))
		if err != nil {
			t.Fatal(err)
		}
		return f.RowGroups()[0]
	}
	index, err := open(pristine).ColumnChunks()[0].OffsetIndex()
	if err != nil {
		t.Fatal(err)
	}
	if index.NumPages() < 4 {
		t.Fatalf("need at least 4 pages, got %d", index.NumPages())
	}
	const target = 1
	firstRow := index.FirstRowIndex(target)
	lastRow := index.FirstRowIndex(target+1) - 1

	corrupted := bytes.Clone(pristine)
	corrupted[index.Offset(target)+index.CompressedPageSize(target)-1] ^= 0x10

	rr := open(corrupted).Rows()
	defer rr.Close()

	batch := make([]parquet.Row, 100)
	position := int64(0)
	for {
		n, err := rr.ReadRows(batch)
		for i := 0; i < n; i++ {
			if got, want := batch[i][0].Int64(), (position+int64(i))*7+3; got != want {
				t.Fatalf("row %d: got %d, want %d (before any error)", position+int64(i), got, want)
			}
		}
		position += int64(n)
		if err != nil {
			if !errors.Is(err, parquet.ErrCorrupted) {
				t.Fatalf("want ErrCorrupted, got %v at row %d", err, position)
			}
			break
		}
	}
	if position > firstRow {
		t.Fatalf("rows of the corrupted page were returned: position=%d firstRow=%d", position, firstRow)
	}
	t.Logf("ErrCorrupted reported with the reader at row %d; the corrupted page holds rows [%d,%d]", position, firstRow, lastRow)

	// Seek to where the reader is and read a batch which must touch the
	// corrupted page.
	if err := rr.SeekToRow(position); err != nil {
		t.Fatalf("SeekToRow(%d): %v", position, err)
	}
	n, err := rr.ReadRows(batch)
	if err != nil && err != io.EOF {
		if !errors.Is(err, parquet.ErrCorrupted) {
			t.Fatalf("want ErrCorrupted, got %v", err)
		}
		return // reported: the property holds
	}
	for i := 0; i < n; i++ {
		if got, want := batch[i][0].Int64(), (position+int64(i))*7+3; got != want {
			t.Fatalf("after SeekToRow(%d), ReadRows returned %d rows and err=%v although rows [%d,%d] lie in a corrupted page; row %d came back as %d (which is row %d of the file) instead of %d",
				position, n, err, firstRow, lastRow, position+int64(i), got, (got-3)/7, want)
		}
	}
	t.Fatalf("ReadRows returned %d correct rows and err=%v from a corrupted page", n, err)
}
