package scratch

import (
	"bytes"
	"testing"

	"github.com/parquet-go/parquet-go"
)

type SrcGD52 struct{ A *int64 }
type SrcD52 struct {
	G *SrcGD52
	L []SrcGD52 `parquet:",list"`
}
type DstGD52 struct {
	A *int64
	B int64
}
type DstD52 struct {
	G *DstGD52
	L []DstGD52 `parquet:",list"`
}

// D52 (C12): a REQUIRED column that the target schema adds inside an optional group or
// a list element borrows its levels from the closest source column.  When that column
// is optional itself (it has a definition level of its own below the shared group) the
// zero values kept the template's level, one above the new column's maximum: CopyRows
// succeeded and the writer panicked on Close (index out of range in the level
// histogram).
func TestD52RequiredColumnNextToOptionalSibling(t *testing.T) {
	defer func() {
		if p := recover(); p != nil {
			t.Errorf("panic: %v", p)
		}
	}()
	one, two := int64(1), int64(2)
	rows := []SrcD52{
		{G: &SrcGD52{A: &one}, L: []SrcGD52{{A: &two}, {A: nil}}},
		{G: nil, L: nil},
		{G: &SrcGD52{A: nil}, L: []SrcGD52{{A: nil}}},
	}
	var src bytes.Buffer
	w := parquet.NewGenericWriter[SrcD52](&src)
	w.Write(rows)
	if err := w.Close(); err != nil {
		t.Fatal(err)
	}
	f, err := parquet.OpenFile(bytes.NewReader(src.Bytes()), int64(src.Len()))
	if err != nil {
		t.Fatal(err)
	}
	var dst bytes.Buffer
	dw := parquet.NewGenericWriter[DstD52](&dst)
	if _, err := parquet.CopyRows(dw, f.RowGroups()[0].Rows()); err != nil {
		t.Fatal(err)
	}
	if err := dw.Close(); err != nil {
		t.Fatal(err)
	}
	got, err := parquet.Read[DstD52](bytes.NewReader(dst.Bytes()), int64(dst.Len()))
	if err != nil {
		t.Fatal(err)
	}
	if len(got) != 3 || got[0].G == nil || got[0].G.A == nil || *got[0].G.A != 1 || got[0].G.B != 0 ||
		got[1].G != nil || got[2].G == nil || got[2].G.A != nil ||
		len(got[0].L) != 2 || got[0].L[0].A == nil || *got[0].L[0].A != 2 || got[0].L[1].A != nil || len(got[1].L) != 0 || len(got[2].L) != 1 {
		t.Errorf("copied rows read back as %+v", got)
	}
}
