package scratch

import (
	"bytes"
	"testing"

	"github.com/parquet-go/parquet-go/encoding/rle"
)

// D33 (C04): in the RLE/bit-packed hybrid encoding of booleans (bit width 1) the
// repeated value of a run is stored in one byte and is 0 or 1.  The decoder copied
// that byte into every output byte, so a run of N true values written by any writer
// that follows the specification (value 0x01) decoded as one true value followed by
// seven false ones, N/8 times.  The encoder wrote 0xFF for a run of true values,
// a value that does not fit the bit width.
func TestD33RLEBooleanRunValue(t *testing.T) {
	enc := &rle.Encoding{BitWidth: 1}
	// 4-byte length, then one run: header (16 values << 1 | 0), repeated value 1
	src := []byte{2, 0, 0, 0, 16 << 1, 0x01}
	got, err := enc.DecodeBoolean(nil, src)
	if err != nil {
		t.Fatal(err)
	}
	if want := []byte{0xFF, 0xFF}; !bytes.Equal(got, want) {
		t.Errorf("decoding a run of 16 x true (run value 0x01): bits %08b, want %08b", got, want)
	}
	// what this library's own encoder produces for 16 x true
	out, err := enc.EncodeBoolean(nil, []byte{0xFF, 0xFF})
	if err != nil {
		t.Fatal(err)
	}
	if len(out) != 6 || out[4] != 16<<1 {
		t.Fatalf("unexpected encoding % x", out)
	}
	if out[5] > 1 {
		t.Errorf("encoded run value is 0x%02X: not a value of bit width 1", out[5])
	}
	back, err := enc.DecodeBoolean(nil, out)
	if err != nil || !bytes.Equal(back, []byte{0xFF, 0xFF}) {
		t.Errorf("round trip: %08b %v", back, err)
	}
	// files written before the fix (run value 0xFF) still read as true
	old, err := enc.DecodeBoolean(nil, []byte{2, 0, 0, 0, 16 << 1, 0xFF})
	if err != nil || !bytes.Equal(old, []byte{0xFF, 0xFF}) {
		t.Errorf("run value 0xFF: %08b %v", old, err)
	}
}
