package scratch

import (
	"bytes"
	"io"
	"testing"

	"github.com/parquet-go/parquet-go"
)

type itemD20A struct {
	A int64 `parquet:"a"`
}
type itemD20AZ struct {
	A int64  `parquet:"a"`
	Z *int64 `parquet:"z,optional"`
}
type rowD20A struct {
	ID    int64      `parquet:"id"`
	Items []itemD20A `parquet:"items"`
}
type rowD20AZ struct {
	ID    int64       `parquet:"id"`
	Items []itemD20AZ `parquet:"items"`
}

func d20File[T any](t *testing.T, rows []T) parquet.RowGroup {
	var buf bytes.Buffer
	w := parquet.NewGenericWriter[T](&buf)
	w.Write(rows)
	if err := w.Close(); err != nil {
		t.Fatal(err)
	}
	f, err := parquet.OpenFile(bytes.NewReader(buf.Bytes()), int64(buf.Len()))
	if err != nil {
		t.Fatal(err)
	}
	return f.RowGroups()[0]
}

// D20 (C12): reading a row group through a schema that ADDS an optional column
// inside a repeated group.  The placeholder column mirrors the levels of a sibling
// but was sized one value per ROW; with more list elements than rows the read
// failed ("no values found in parquet row") or shifted values between rows.
func TestD20MissingColumnInsideRepeatedGroup(t *testing.T) {
	p := func(i int64) *int64 { return &i }
	a := d20File(t, []rowD20A{{1, []itemD20A{{10}, {11}, {12}}}, {2, []itemD20A{{20}}}})
	b := d20File(t, []rowD20AZ{{3, []itemD20AZ{{30, p(9)}}}, {4, []itemD20AZ{{40, p(8)}, {41, nil}}}})
	m, err := parquet.MergeRowGroups([]parquet.RowGroup{a, b}, parquet.SchemaOf(rowD20AZ{}))
	if err != nil {
		t.Fatal(err)
	}
	r := parquet.NewGenericRowGroupReader[rowD20AZ](m)
	out := make([]rowD20AZ, 10)
	n, err := r.Read(out)
	if err != nil && err != io.EOF {
		t.Fatalf("reading the merged row group: %v", err)
	}
	if n != 4 {
		t.Fatalf("%d rows, want 4", n)
	}
	wantItems := [][]int64{{10, 11, 12}, {20}, {30}, {40, 41}}
	wantZ := [][]int64{{-1, -1, -1}, {-1}, {9}, {8, -1}}
	for i := 0; i < 4; i++ {
		if len(out[i].Items) != len(wantItems[i]) {
			t.Errorf("row %d: %d items, want %d", i, len(out[i].Items), len(wantItems[i]))
			continue
		}
		for k, it := range out[i].Items {
			z := int64(-1)
			if it.Z != nil {
				z = *it.Z
			}
			if it.A != wantItems[i][k] || z != wantZ[i][k] {
				t.Errorf("row %d item %d: a=%d z=%d, want a=%d z=%d", i, k, it.A, z, wantItems[i][k], wantZ[i][k])
			}
		}
	}
}
