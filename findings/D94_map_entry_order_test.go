package scratch

// D94 (C03): failed before the fix commit; see known_findings.json.

// PRE-EXISTING (fails on the UNCHANGED tree, independent of patch.diff).
//
// A Go map with more than one entry is not shredded into one well-defined
// sequence: the typed paths (GenericWriter[T].Write, GenericBuffer[T].Write,
// RowBuffer[T].Write) emit the key_value entries sorted by key
// (makeMapFunc sorts in column_buffer_reflect.go), while the reflection paths
// (Writer.Write(any), Buffer.Write(any), Schema.Deconstruct) emit them in Go's
// randomized map iteration order (deconstructFuncOfMap uses MapKeys). The
// key/value columns therefore hold different (value, rep, def) sequences for
// the same Go value depending on the entry point, and even between two calls
// on the same entry point.
//
// Place in the repository root and run:
//   GOFLAGS=-mod=mod GOPROXY=off go test -vet=off -count=1 -timeout 600s -run TestD94MapEntryOrder .

import (
	"bytes"
	"fmt"
	"reflect"
	"testing"

	"github.com/parquet-go/parquet-go"
)

type preC03MapRow struct {
	M map[string]int64 `parquet:"m"`
}

func preC03Dump(t *testing.T, data []byte) []string {
	t.Helper()
	f, err := parquet.OpenFile(bytes.NewReader(data), int64(len(data)))
	if err != nil {
		t.Fatal(err)
	}
	var out []string
	for _, rg := range f.RowGroups() {
		rows := rg.Rows()
		buf := make([]parquet.Row, 16)
		for {
			n, err := rows.ReadRows(buf)
			for _, row := range buf[:n] {
				s := ""
				for _, v := range row {
					s += fmt.Sprintf("[c%d %v r%d d%d]", v.Column(), v, v.RepetitionLevel(), v.DefinitionLevel())
				}
				out = append(out, s)
			}
			if err != nil {
				break
			}
		}
		rows.Close()
	}
	return out
}

func TestD94MapEntryOrder(t *testing.T) {
	m := map[string]int64{}
	for i := 0; i < 40; i++ {
		m[fmt.Sprintf("k%02d", i)] = int64(i)
	}
	values := []preC03MapRow{{M: m}}
	schema := parquet.SchemaOf(preC03MapRow{})

	typed := new(bytes.Buffer)
	gw := parquet.NewGenericWriter[preC03MapRow](typed, schema)
	if _, err := gw.Write(values); err != nil {
		t.Fatal(err)
	}
	if err := gw.Close(); err != nil {
		t.Fatal(err)
	}
	want := preC03Dump(t, typed.Bytes())

	refl := new(bytes.Buffer)
	w := parquet.NewWriter(refl, schema)
	if err := w.Write(&values[0]); err != nil {
		t.Fatal(err)
	}
	if err := w.Close(); err != nil {
		t.Fatal(err)
	}
	if got := preC03Dump(t, refl.Bytes()); !reflect.DeepEqual(got, want) {
		t.Errorf("Writer.Write(any) differs from GenericWriter.Write:\n got: %q\nwant: %q", got, want)
	}

	shred := new(bytes.Buffer)
	rw := parquet.NewGenericWriter[preC03MapRow](shred, schema)
	if _, err := rw.WriteRows([]parquet.Row{schema.Deconstruct(nil, &values[0])}); err != nil {
		t.Fatal(err)
	}
	if err := rw.Close(); err != nil {
		t.Fatal(err)
	}
	if got := preC03Dump(t, shred.Bytes()); !reflect.DeepEqual(got, want) {
		t.Errorf("WriteRows(Deconstruct(v)) differs from GenericWriter.Write:\n got: %q\nwant: %q", got, want)
	}

	// Not even one entry point is stable: two Deconstruct calls of the same value.
	r1 := schema.Deconstruct(nil, &values[0])
	r2 := schema.Deconstruct(nil, &values[0])
	if !r1.Equal(r2) {
		t.Errorf("Schema.Deconstruct of the same value returned two different rows")
	}
}
