package scratch

import (
	"bytes"
	"fmt"
	"testing"

	"github.com/parquet-go/parquet-go"
)

type RD41 struct {
	ID   int64  `parquet:"id"`
	Name string `parquet:"name"`
}

// shortOnce accepts everything except that the write covering byte offset failAt is
// cut short - and, like many hand-written writers, reports no error for it.
type shortOnce struct {
	buf    bytes.Buffer
	failAt int
	done   bool
}

func (s *shortOnce) Write(p []byte) (int, error) {
	if !s.done && s.buf.Len()+len(p) > s.failAt {
		s.done = true
		n := s.failAt - s.buf.Len()
		s.buf.Write(p[:n])
		return n, nil
	}
	return s.buf.Write(p)
}

// D41 (C14): with the writer's own buffering switched off (WriteBufferSize(0)) the
// sink is written through offsetTrackingWriter, which only looked at the error: a
// short count with a nil error was absorbed, Write, Flush and Close all returned nil
// and the sink held a damaged file.  (bufio, used by default, turns the same event
// into io.ErrShortWrite.)
func TestD41ShortWriteWithoutError(t *testing.T) {
	rows := make([]RD41, 200)
	for i := range rows {
		rows[i] = RD41{ID: int64(i), Name: fmt.Sprintf("name-%d", i)}
	}
	var ref bytes.Buffer
	w := parquet.NewGenericWriter[RD41](&ref, parquet.WriteBufferSize(0))
	w.Write(rows)
	if err := w.Close(); err != nil {
		t.Fatal(err)
	}
	absorbed := 0
	for failAt := 0; failAt < ref.Len(); failAt++ {
		sink := &shortOnce{failAt: failAt}
		w := parquet.NewGenericWriter[RD41](sink, parquet.WriteBufferSize(0))
		_, err1 := w.Write(rows)
		err2 := w.Close()
		if err1 == nil && err2 == nil && sink.done && !bytes.Equal(sink.buf.Bytes(), ref.Bytes()) {
			absorbed++
		}
	}
	if absorbed > 0 {
		t.Errorf("%d of %d short writes were absorbed: every call returned nil and the file is incomplete", absorbed, ref.Len())
	}
}
