package scratch

import (
	"io"
	"testing"

	"github.com/parquet-go/parquet-go"
)

// D26 (C08): nullPage.Slice(i, j) returned a page of count-(j-i) values with no
// type instead of the j-i values selected, so seeking inside a page of a
// NULL-typed column (parquet.NullType, also what unknown logical types map to)
// yielded the wrong number of rows.
func TestD26NullPageSlice(t *testing.T) {
	schema := parquet.NewSchema("x", parquet.Group{
		"id": parquet.Leaf(parquet.Int64Type),
		"n":  parquet.Leaf(parquet.NullType),
	})
	buf := parquet.NewBuffer(schema)
	const N = 10
	for i := 0; i < N; i++ {
		row := parquet.Row{
			parquet.Int64Value(int64(i)).Level(0, 0, 0),
			parquet.Value{}.Level(0, 0, 1),
		}
		if _, err := buf.WriteRows([]parquet.Row{row}); err != nil {
			t.Fatal(err)
		}
	}
	page := buf.ColumnBuffers()[1].Page()
	if page.NumRows() != N {
		t.Fatalf("page has %d rows", page.NumRows())
	}
	s := page.Slice(2, 5)
	if s.NumRows() != 3 || s.NumValues() != 3 {
		t.Errorf("Slice(2,5) of a %d-row null page has %d rows, %d values; want 3", N, s.NumRows(), s.NumValues())
	}
	if s.Type() == nil {
		t.Errorf("Slice(2,5) lost the page type")
	}
	rows := buf.Rows()
	defer rows.Close()
	if err := rows.SeekToRow(8); err != nil {
		t.Fatal(err)
	}
	got := 0
	var first int64 = -1
	batch := make([]parquet.Row, 4)
	for {
		n, err := rows.ReadRows(batch)
		for _, r := range batch[:n] {
			if got == 0 {
				first = r[0].Int64()
			}
			got++
			if len(r) != 2 {
				t.Errorf("row %v has %d values, want 2", r, len(r))
			}
		}
		if err != nil {
			if err != io.EOF {
				t.Errorf("ReadRows: %v", err)
			}
			break
		}
		if got > N {
			break
		}
	}
	if got != 2 || first != 8 {
		t.Errorf("after SeekToRow(8): %d rows starting at id %d, want 2 rows starting at 8", got, first)
	}
}
