package scratch

// D75 (C17): failed before the fix commit; see known_findings.json.
//
// Key/value metadata set with SetKeyValueMetadata while writing one file stayed in
// the writer across Reset: the next file, written with the same options and rows as
// a fresh writer would, carried the pair and differed from the fresh writer's bytes.

import (
	"bytes"
	"testing"

	"github.com/parquet-go/parquet-go"
)

type d75Row struct {
	A int64 `parquet:"a"`
}

func TestD75KeyValueMetadataAfterReset(t *testing.T) {
	rows := []d75Row{{1}, {2}, {3}}
	options := []parquet.WriterOption{parquet.KeyValueMetadata("configured", "yes")}

	fresh := new(bytes.Buffer)
	fw := parquet.NewGenericWriter[d75Row](fresh, options...)
	if _, err := fw.Write(rows); err != nil {
		t.Fatal(err)
	}
	if err := fw.Close(); err != nil {
		t.Fatal(err)
	}

	first := new(bytes.Buffer)
	w := parquet.NewGenericWriter[d75Row](first, options...)
	w.SetKeyValueMetadata("first-file-only", "x")
	if _, err := w.Write(rows); err != nil {
		t.Fatal(err)
	}
	if err := w.Close(); err != nil {
		t.Fatal(err)
	}
	second := new(bytes.Buffer)
	w.Reset(second)
	if _, err := w.Write(rows); err != nil {
		t.Fatal(err)
	}
	if err := w.Close(); err != nil {
		t.Fatal(err)
	}

	f, err := parquet.OpenFile(bytes.NewReader(second.Bytes()), int64(second.Len()))
	if err != nil {
		t.Fatal(err)
	}
	if v, ok := f.Lookup("first-file-only"); ok {
		t.Errorf("the file written after Reset carries first-file-only=%q, set while writing the previous file", v)
	}
	if v, ok := f.Lookup("configured"); !ok || v != "yes" {
		t.Errorf("the file written after Reset lost the configured metadata: %q %v", v, ok)
	}
	if !bytes.Equal(second.Bytes(), fresh.Bytes()) {
		t.Errorf("the reused writer's file (%d bytes) differs from a fresh writer's (%d bytes)", second.Len(), fresh.Len())
	}
}
