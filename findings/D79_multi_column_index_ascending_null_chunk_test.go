package scratch

// D79 (C05/C06): failed before the fix commit; see known_findings.json.

import (
	"bytes"
	"testing"

	"github.com/parquet-go/parquet-go"
)

type pre2Row struct {
	V *int32 `parquet:"v,optional"`
}

func pre2File(t *testing.T, values []*int32) *parquet.File {
	t.Helper()
	var buf bytes.Buffer
	w := parquet.NewGenericWriter[pre2Row](&buf, parquet.PageBufferSize(16))
	rows := make([]pre2Row, len(values))
	for i, v := range values {
		rows[i].V = v
	}
	// write one row at a time so that the tiny page buffer splits pages
	for i := range rows {
		if _, err := w.Write(rows[i : i+1]); err != nil {
			t.Fatal(err)
		}
	}
	if err := w.Close(); err != nil {
		t.Fatal(err)
	}
	f, err := parquet.OpenFile(bytes.NewReader(buf.Bytes()), int64(buf.Len()))
	if err != nil {
		t.Fatal(err)
	}
	if n := len(f.RowGroups()); n != 1 {
		t.Fatalf("expected 1 row group, got %d", n)
	}
	return f
}

func pre2Ints(from, to int32) []*int32 {
	var out []*int32
	step := int32(1)
	if to < from {
		step = -1
	}
	for v := from; v != to+step; v += step {
		x := v
		out = append(out, &x)
	}
	return out
}

// multiColumnIndex.IsAscending compares only adjacent chunks and skips the
// comparison when one of them has no non-null page: an all-null chunk in the
// middle hides that the chunk after it starts below the chunk before it. The
// index claims to be ascending and the binary search of Find misses values.
func TestD79MultiColumnIndexAscendingAcrossNullChunk(t *testing.T) {
	a := pre2File(t, pre2Ints(50, 89))
	b := pre2File(t, make([]*int32, 40)) // all nulls
	c := pre2File(t, pre2Ints(1, 40))

	m := parquet.MultiRowGroup(a.RowGroups()[0], b.RowGroups()[0], c.RowGroups()[0])
	chunk := m.ColumnChunks()[0]
	index, err := chunk.ColumnIndex()
	if err != nil {
		t.Fatal(err)
	}
	t.Logf("pages=%d ascending=%v descending=%v", index.NumPages(), index.IsAscending(), index.IsDescending())

	// Is the claimed order true?
	if index.IsAscending() {
		var prev parquet.Value
		for i := 0; i < index.NumPages(); i++ {
			if index.NullPage(i) {
				continue
			}
			if !prev.IsNull() && chunk.Type().Compare(prev, index.MinValue(i)) > 0 {
				t.Errorf("index claims ascending order but min of page %d (%v) is below min of an earlier page (%v)", i, index.MinValue(i), prev)
				break
			}
			prev = index.MinValue(i)
		}
	}

	// Does a reader using the index find the values which are present?
	for _, v := range append(pre2Ints(50, 89), pre2Ints(1, 40)...) {
		found := parquet.Search(index, parquet.Int32Value(*v), chunk.Type())
		if found >= index.NumPages() {
			t.Errorf("Search reports that value %d is in no page (returned %d of %d) but it was written", *v, found, index.NumPages())
			break
		}
	}
}
