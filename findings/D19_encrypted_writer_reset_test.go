package scratch

import (
	"bytes"
	"testing"

	"github.com/parquet-go/parquet-go"
)

type RD19 struct {
	A int64  `parquet:"a"`
	S string `parquet:"s,dict"`
}

type keysD19 struct{}

func (keysD19) FooterKey([]byte) ([]byte, error)           { return []byte("0123456789abcdef"), nil }
func (keysD19) ColumnKey([]string, []byte) ([]byte, error) { return []byte("0123456789abcdef"), nil }

// D19 (C18, C17): an encrypting writer reused through Reset.  Close flushes the
// columns' buffered pages before the row group is assembled; the pages were
// encrypted under the row-group ordinal left behind by the previous file (1, 2, ...)
// while the new file's first row group has ordinal 0: the file cannot be read back
// (AES-GCM authentication failure), in both footer modes.
func TestD19EncryptedWriterReset(t *testing.T) {
	for _, encFooter := range []bool{true, false} {
		cfg := &parquet.EncryptionConfig{FooterKey: []byte("0123456789abcdef"), EncryptedFooter: encFooter}
		rows := []RD19{{1, "a"}, {2, "b"}, {3, "a"}}
		var first, second bytes.Buffer
		w := parquet.NewGenericWriter[RD19](&first, parquet.WithEncryption(cfg))
		w.Write(rows)
		w.Flush()
		w.Write(rows)
		if err := w.Close(); err != nil {
			t.Fatal(err)
		}
		w.Reset(&second)
		w.Write(rows)
		if err := w.Close(); err != nil {
			t.Fatal(err)
		}
		for name, buf := range map[string]*bytes.Buffer{"fresh writer": &first, "writer after Reset": &second} {
			f, err := parquet.OpenFile(bytes.NewReader(buf.Bytes()), int64(buf.Len()), parquet.WithDecryption(keysD19{}))
			if err != nil {
				t.Errorf("encryptedFooter=%v, %s: open: %v", encFooter, name, err)
				continue
			}
			r := parquet.NewGenericReader[RD19](f)
			out := make([]RD19, 10)
			n, err := r.Read(out)
			want := 3
			if name == "fresh writer" {
				want = 6
			}
			if n != want {
				t.Errorf("encryptedFooter=%v, %s: read %d rows (want %d): %v", encFooter, name, n, want, err)
			}
			r.Close()
		}
	}
}
