package scratch

// D88 (C11/C02): failed before the fix commit; see known_findings.json.

import (
	"bytes"
	"errors"
	"io"
	"testing"

	"github.com/parquet-go/parquet-go"
)

type pre1Row struct {
	A int64 `parquet:"a"`
	B int64 `parquet:"b"`
}

// pre1FailingReaderAt fails reads which overlap [off, off+n) while armed.
type pre1FailingReaderAt struct {
	r      io.ReaderAt
	off, n int64
	armed  bool
}

func (f *pre1FailingReaderAt) ReadAt(p []byte, off int64) (int, error) {
	if f.armed && off < f.off+f.n && off+int64(len(p)) > f.off {
		return 0, errors.New("injected read error")
	}
	return f.r.ReadAt(p, off)
}

func TestD88FailedCopyLeavesColumns(t *testing.T) {
	src := make([]pre1Row, 100)
	for i := range src {
		src[i] = pre1Row{A: int64(i), B: int64(1000 + i)}
	}
	var sbuf bytes.Buffer
	sw := parquet.NewGenericWriter[pre1Row](&sbuf)
	if _, err := sw.Write(src); err != nil {
		t.Fatal(err)
	}
	if err := sw.Close(); err != nil {
		t.Fatal(err)
	}

	ra := &pre1FailingReaderAt{r: bytes.NewReader(sbuf.Bytes())}
	f, err := parquet.OpenFile(ra, int64(sbuf.Len()), parquet.SkipPageIndex(true))
	if err != nil {
		t.Fatal(err)
	}
	col1 := f.Metadata().RowGroups[0].Columns[1]
	ra.off, ra.n = col1.ColumnIndexOffset, int64(col1.ColumnIndexLength)
	ra.armed = true

	var out bytes.Buffer
	w := parquet.NewGenericWriter[pre1Row](&out)
	if _, err := w.WriteRowGroup(f.RowGroups()[0]); err == nil {
		t.Skip("the injected error did not reach WriteRowGroup")
	} else {
		t.Logf("WriteRowGroup failed as arranged: %v", err)
	}
	ra.armed = false

	// The failed call wrote nothing. The application carries on with other rows.
	other := make([]pre1Row, 10)
	for i := range other {
		other[i] = pre1Row{A: int64(-1 - i), B: int64(-1001 - i)}
	}
	if _, err := w.Write(other); err != nil {
		t.Fatal(err)
	}
	if err := w.Close(); err != nil {
		t.Fatalf("Close: %v", err)
	}

	of, err := parquet.OpenFile(bytes.NewReader(out.Bytes()), int64(out.Len()))
	if err != nil {
		t.Fatalf("opening the output: %v", err)
	}
	if of.NumRows() != int64(len(other)) {
		t.Errorf("output has %d rows, want %d", of.NumRows(), len(other))
	}
	r := parquet.NewGenericReader[pre1Row](of)
	defer r.Close()
	got := make([]pre1Row, 200)
	n, err := r.Read(got)
	if err != nil && err != io.EOF {
		t.Fatalf("reading the output: %v", err)
	}
	got = got[:n]
	if len(got) != len(other) {
		t.Fatalf("read %d rows, want %d (first rows: %v)", len(got), len(other), got[:min(len(got), 12)])
	}
	for i := range other {
		if got[i] != other[i] {
			t.Fatalf("row %d: got %+v, want %+v", i, got[i], other[i])
		}
	}
}
