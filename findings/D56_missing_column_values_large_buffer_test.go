package scratch

import (
	"bytes"
	"testing"

	"github.com/parquet-go/parquet-go"
)

type ElSrcD56 struct{ A int64 }
type SrcD56 struct{ L []ElSrcD56 }
type ElDstD56 struct {
	A int64
	B *int64
}
type DstD56 struct{ L []ElDstD56 }

// D56 (C12 "none panics"): the values of a column that only the target schema has are
// produced by mirroring the levels of a sibling column through a fixed scratch buffer of
// 1024 values.  The buffer was re-sliced to the length of the caller's slice, so asking
// for more than 1024 values at once panicked (slice bounds out of range).
func TestD56MissingColumnValuesLargeBuffer(t *testing.T) {
	defer func() {
		if p := recover(); p != nil {
			t.Errorf("panic: %v", p)
		}
	}()
	rows := make([]SrcD56, 300)
	for i := range rows {
		rows[i].L = make([]ElSrcD56, 10)
	}
	var src bytes.Buffer
	w := parquet.NewGenericWriter[SrcD56](&src)
	w.Write(rows)
	if err := w.Close(); err != nil {
		t.Fatal(err)
	}
	f, err := parquet.OpenFile(bytes.NewReader(src.Bytes()), int64(src.Len()))
	if err != nil {
		t.Fatal(err)
	}
	conv, err := parquet.Convert(parquet.SchemaOf(DstD56{}), f.Schema())
	if err != nil {
		t.Fatal(err)
	}
	rg := parquet.ConvertRowGroup(f.RowGroups()[0], conv)
	pages := rg.ColumnChunks()[1].Pages() // l.b, the added column
	defer pages.Close()
	page, err := pages.ReadPage()
	if err != nil {
		t.Fatal(err)
	}
	values := make([]parquet.Value, 5000)
	n, _ := page.Values().ReadValues(values)
	if n != 3000 {
		t.Errorf("read %d values of the added column, want 3000", n)
	}
}
