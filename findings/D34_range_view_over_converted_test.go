package scratch

import (
	"bytes"
	"io"
	"testing"

	"github.com/parquet-go/parquet-go"
)

// D34 (C12, C11): merging partially overlapping row groups slices the stretches of
// key space covered by one row group off as row-range views.  A view over a
// CONVERTED row group read the pages of the underlying chunks directly, so its rows
// skipped the conversion (here: timestamps in milliseconds that the target schema
// declares as microseconds came out unscaled).
type c11dMillis struct {
	ID int64 `parquet:"id"`
	TS int64 `parquet:"ts,timestamp(millisecond)"`
}

type c11dMicros struct {
	ID int64 `parquet:"id"`
	TS int64 `parquet:"ts,timestamp(microsecond)"`
}

func c11dSorting() parquet.SortingOption {
	return parquet.SortingColumns(parquet.Ascending("id"))
}

func c11dWriteFile[T any](t *testing.T, rows []T) *parquet.File {
	t.Helper()
	var buf bytes.Buffer
	w := parquet.NewGenericWriter[T](&buf, parquet.SortingWriterConfig(c11dSorting()))
	if _, err := w.Write(rows); err != nil {
		t.Fatal(err)
	}
	if err := w.Close(); err != nil {
		t.Fatal(err)
	}
	f, err := parquet.OpenFile(bytes.NewReader(buf.Bytes()), int64(buf.Len()))
	if err != nil {
		t.Fatal(err)
	}
	return f
}

func c11dReadRows(t *testing.T, rows parquet.Rows) []parquet.Row {
	t.Helper()
	defer rows.Close()
	var out []parquet.Row
	buf := make([]parquet.Row, 64)
	for {
		n, err := rows.ReadRows(buf)
		for _, r := range buf[:n] {
			out = append(out, r.Clone())
		}
		if err == io.EOF {
			return out
		}
		if err != nil {
			t.Fatal(err)
		}
		if n == 0 {
			t.Fatal("no progress reading rows")
		}
	}
}

func c11dWriteFileOpts[T any](t *testing.T, rows []T, opts ...parquet.WriterOption) *parquet.File {
	t.Helper()
	var buf bytes.Buffer
	opts = append(opts, parquet.SortingWriterConfig(c11dSorting()))
	w := parquet.NewGenericWriter[T](&buf, opts...)
	if _, err := w.Write(rows); err != nil {
		t.Fatal(err)
	}
	if err := w.Close(); err != nil {
		t.Fatal(err)
	}
	f, err := parquet.OpenFile(bytes.NewReader(buf.Bytes()), int64(buf.Len()))
	if err != nil {
		t.Fatal(err)
	}
	return f
}

func TestD34RangeViewOverConverted(t *testing.T) {
	a := make([]c11dMillis, 5000)
	for i := range a {
		a[i] = c11dMillis{ID: int64(i), TS: int64(1_000 + i)}
	}
	b := make([]c11dMicros, 5000)
	for i := range b {
		b[i] = c11dMicros{ID: int64(4000 + i), TS: int64(5_000_000 + i)}
	}
	fa := c11dWriteFileOpts(t, a, parquet.PageBufferSize(1024))
	fb := c11dWriteFileOpts(t, b, parquet.PageBufferSize(1024))
	merged, err := parquet.MergeRowGroups(
		[]parquet.RowGroup{fa.RowGroups()[0], fb.RowGroups()[0]},
		&parquet.RowGroupConfig{Schema: parquet.SchemaOf(c11dMicros{})},
		parquet.SortingRowGroupConfig(c11dSorting()),
	)
	if err != nil {
		t.Fatal(err)
	}
	rows := c11dReadRows(t, merged.Rows())
	t.Logf("merged.Rows(): %d rows, row0=%v", len(rows), rows[0])
	bad := 0
	for _, r := range rows {
		id, ts := r[0].Int64(), r[1].Int64()
		if ts < 5_000_000 && ts != (1000+id)*1000 {
			bad++
		}
	}
	t.Logf("Rows(): unconverted rows: %d", bad)

	var dst bytes.Buffer
	w := parquet.NewGenericWriter[c11dMicros](&dst, parquet.SortingWriterConfig(c11dSorting()))
	if _, err := w.WriteRowGroup(merged); err != nil {
		t.Fatal(err)
	}
	w.Close()
	out, _ := parquet.OpenFile(bytes.NewReader(dst.Bytes()), int64(dst.Len()))
	bad2, total := 0, 0
	for _, rg := range out.RowGroups() {
		for _, r := range c11dReadRows(t, rg.Rows()) {
			total++
			id, ts := r[0].Int64(), r[1].Int64()
			if ts < 5_000_000 && ts != (1000+id)*1000 {
				bad2++
			}
		}
	}
	t.Logf("WriteRowGroup: %d rows, unconverted rows: %d", total, bad2)
	if bad != 0 || bad2 != 0 {
		t.Fail()
	}
}
