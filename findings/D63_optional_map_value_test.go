package scratch

// D63 (C03): failed before the fix commit; see known_findings.json.
//
// A map whose values are made optional with parquet-value:",optional": the typed
// path (GenericBuffer[T].Write) stored every value one definition level short (NULL)
// and the reflection path (Schema.Deconstruct) panicked converting the value to the
// pointer type of the optional node.

import (
	"bytes"
	"reflect"
	"testing"

	"github.com/parquet-go/parquet-go"
)

type d63Row struct {
	M map[string]int64  `parquet:"m" parquet-value:",optional"`
	S map[string]string `parquet:"s" parquet-value:",optional"`
}

func TestD63OptionalMapValue(t *testing.T) {
	value := d63Row{M: map[string]int64{"a": 1}, S: map[string]string{"k": "v"}}
	schema := parquet.SchemaOf(d63Row{})

	buf := parquet.NewGenericBuffer[d63Row]()
	if _, err := buf.Write([]d63Row{value}); err != nil {
		t.Fatal(err)
	}
	rows := buf.Rows()
	defer rows.Close()
	got := make([]parquet.Row, 1)
	if n, _ := rows.ReadRows(got); n != 1 {
		t.Fatalf("read %d rows", n)
	}
	for _, v := range got[0] {
		if (v.Column() == 1 || v.Column() == 3) && v.IsNull() {
			t.Errorf("typed path stored the present map value of column %d as %+v", v.Column(), v)
		}
	}

	func() {
		defer func() {
			if r := recover(); r != nil {
				t.Errorf("Schema.Deconstruct panicked on a value the typed path accepts: %v", r)
			}
		}()
		want := schema.Deconstruct(nil, &value)
		if !got[0].Equal(want) {
			t.Errorf("GenericBuffer.Write and Schema.Deconstruct disagree\n typed:       %+v\n deconstruct: %+v", got[0], want)
		}
	}()

	var b bytes.Buffer
	w := parquet.NewGenericWriter[d63Row](&b)
	if _, err := w.Write([]d63Row{value}); err != nil {
		t.Fatal(err)
	}
	if err := w.Close(); err != nil {
		t.Fatal(err)
	}
	back, err := parquet.Read[d63Row](bytes.NewReader(b.Bytes()), int64(b.Len()))
	if err != nil {
		t.Fatal(err)
	}
	if len(back) != 1 || !reflect.DeepEqual(back[0], value) {
		t.Errorf("read back %+v, wrote %+v", back, value)
	}
}
