package scratch

import (
	"bytes"
	"fmt"
	"testing"

	"github.com/parquet-go/parquet-go"
)

// D24 (C17): rows abandoned in the PLAIN fallback buffer of a column reappear in
// the next file written after Reset.
func TestD24AbandonedPlainFallbackBuffer(t *testing.T) {
	type row struct {
		Unique string `parquet:"unique,dict"`
	}
	rows := make([]row, 610) // 12 batches of 50 + a partial batch of 10 left unflushed
	for i := range rows {
		rows[i].Unique = fmt.Sprintf("unique-value-%032d", i)
	}
	opts := []parquet.WriterOption{parquet.DictionaryMaxBytes(1024), parquet.PageBufferSize(2048)}
	write := func(w *parquet.GenericWriter[row]) {
		for i := 0; i < len(rows); i += 50 {
			if _, err := w.Write(rows[i:min(i+50, len(rows))]); err != nil {
				t.Fatal(err)
			}
		}
	}

	fresh := new(bytes.Buffer)
	fw := parquet.NewGenericWriter[row](fresh, opts...)
	write(fw)
	if err := fw.Close(); err != nil {
		t.Fatal(err)
	}

	w := parquet.NewGenericWriter[row](new(bytes.Buffer), opts...)
	write(w) // abandoned: 10 rows are left in the PLAIN fallback buffer
	reused := new(bytes.Buffer)
	w.Reset(reused)
	write(w)
	if err := w.Close(); err != nil {
		t.Fatal(err)
	}
	f, err := parquet.OpenFile(bytes.NewReader(reused.Bytes()), int64(reused.Len()))
	if err != nil {
		t.Fatal(err)
	}
	if f.NumRows() != int64(len(rows)) {
		t.Errorf("the file written after Reset holds %d rows, %d were written", f.NumRows(), len(rows))
	}
	if !bytes.Equal(fresh.Bytes(), reused.Bytes()) {
		t.Fatalf("reused writer wrote %d bytes, fresh writer %d bytes", reused.Len(), fresh.Len())
	}
}
