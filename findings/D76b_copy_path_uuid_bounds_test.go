// dir: .
// D76b (C06/C05): failed before the fix commit (a regression of the D67 repair); see known_findings.json.
package parquet

import (
	"bytes"
	"io"
	"testing"
)

// PRE-EXISTING (fails on the unchanged tree): the verbatim copy path of
// Writer.WriteRowGroup cuts the column index bounds of every
// FIXED_LEN_BYTE_ARRAY column down to the destination ColumnIndexSizeLimit,
// including the 16-byte columns (UUID, FIXED_LEN_BYTE_ARRAY(16)) whose row
// path indexer (be128ColumnIndexer) never truncates and whose Compare reads
// both operands as *[16]byte. With a destination limit below 16 the copied
// index carries bounds shorter than 16 bytes; Search then compares probes
// against 16 bytes read past the end of those short bounds and skips pages
// which contain the probed value (it returns NumPages for present values).
func TestD76bUUIDBoundsTruncatedByCopy(t *testing.T) {
	type row struct {
		ID [16]byte `parquet:"id,uuid"`
	}

	const numRows = 300
	rows := make([]row, numRows)
	for i := range rows {
		// ascending ids which differ only in their last bytes
		rows[i].ID = [16]byte{0: 0x10, 1: 0x20, 2: 0x30, 3: 0x40, 14: byte(i >> 8), 15: byte(i)}
	}

	limit := func(n int) WriterOption {
		return ColumnIndexSizeLimit(func([]string) int { return n })
	}

	var srcBuf bytes.Buffer
	sw := NewGenericWriter[row](&srcBuf, PageBufferSize(512))
	if _, err := sw.Write(rows); err != nil {
		t.Fatal(err)
	}
	if err := sw.Close(); err != nil {
		t.Fatal(err)
	}
	src, err := OpenFile(bytes.NewReader(srcBuf.Bytes()), int64(srcBuf.Len()))
	if err != nil {
		t.Fatal(err)
	}
	c06pre3Check(t, "source", src)

	before := copyPathCounter.Load()
	var dstBuf bytes.Buffer
	dw := NewGenericWriter[row](&dstBuf, PageBufferSize(512), limit(4))
	for _, rg := range src.RowGroups() {
		if _, err := dw.WriteRowGroup(rg); err != nil {
			t.Fatal(err)
		}
	}
	if err := dw.Close(); err != nil {
		t.Fatal(err)
	}
	if copyPathCounter.Load() == before {
		t.Skip("the verbatim copy path was not taken")
	}
	dst, err := OpenFile(bytes.NewReader(dstBuf.Bytes()), int64(dstBuf.Len()))
	if err != nil {
		t.Fatal(err)
	}
	c06pre3Check(t, "copy", dst)
}

func c06pre3Check(t *testing.T, name string, f *File) {
	t.Helper()
	failures := 0
	for _, rg := range f.RowGroups() {
		chunk := rg.ColumnChunks()[0]
		typ := chunk.Type()
		index, err := chunk.ColumnIndex()
		if err != nil {
			t.Fatal(err)
		}
		numPages := index.NumPages()
		for p := range numPages {
			if n := len(index.MaxValue(p).ByteArray()); n != 16 {
				t.Errorf("%s: page %d: max bound of a 16-byte column has %d bytes", name, p, n)
				break
			}
		}
		pages := chunk.Pages()
		for p := 0; ; p++ {
			page, err := pages.ReadPage()
			if err == io.EOF {
				break
			}
			if err != nil {
				t.Fatal(err)
			}
			values := make([]Value, page.NumValues())
			n, err := page.Values().ReadValues(values)
			if err != nil && err != io.EOF {
				t.Fatal(err)
			}
			for _, v := range values[:n] {
				if v.IsNull() {
					continue
				}
				if found := Search(index, v, typ); found > p {
					failures++
					if failures <= 5 {
						t.Errorf("%s: value %x is in page %d but Search returned %d (NumPages=%d, page bounds [%x,%x])",
							name, v.ByteArray(), p, found, numPages, index.MinValue(p).ByteArray(), index.MaxValue(p).ByteArray())
					}
				}
			}
			Release(page)
		}
		pages.Close()
	}
	if failures > 5 {
		t.Errorf("%s: %d violations in total", name, failures)
	}
}
