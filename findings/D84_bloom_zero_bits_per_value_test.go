package scratch

// D84 (C07): failed (panicked) before the fix commit; see known_findings.json.

// PRE-EXISTING (unchanged tree), borderline for C07: with a bits-per-value
// setting of 0 (parquet.SplitBlockFilter(0, ...)) the filter has zero blocks,
// and the writer still tries to insert the values into it: the amd64 bulk
// insert kernel dereferences the (nil) first block and the write crashes with
// a nil pointer dereference instead of producing a file (or a filter that
// answers true). Not a false negative, but the "bits-per-value settings"
// dimension of the property is not handled for 0.
//
// Place in the repository root (package scratch) and run:
//   GOFLAGS=-mod=mod GOPROXY=off go test -vet=off -count=1 -timeout 120s -run TestC07PreexistingZeroBitsPerValue .

import (
	"bytes"
	"testing"

	"github.com/parquet-go/parquet-go"
)

func TestD84ZeroBitsPerValue(t *testing.T) {
	type R struct {
		A string `parquet:"a"`
	}
	defer func() {
		if r := recover(); r != nil {
			t.Fatalf("writing a column with SplitBlockFilter(0, ...) panicked: %v", r)
		}
	}()
	out := new(bytes.Buffer)
	w := parquet.NewGenericWriter[R](out, parquet.BloomFilters(parquet.SplitBlockFilter(0, "a")))
	if _, err := w.Write([]R{{"x"}, {"z"}}); err != nil {
		t.Fatal(err)
	}
	if err := w.Close(); err != nil {
		t.Fatal(err)
	}
	f, err := parquet.OpenFile(bytes.NewReader(out.Bytes()), int64(out.Len()))
	if err != nil {
		t.Fatal(err)
	}
	if bf := f.RowGroups()[0].ColumnChunks()[0].BloomFilter(); bf != nil {
		ok, err := bf.Check(parquet.ValueOf("x"))
		if err != nil || !ok {
			t.Fatalf("Check(x) = %v, %v", ok, err)
		}
	}
}
