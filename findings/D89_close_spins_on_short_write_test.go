package scratch

// D89 (C14): failed (Close never returned) before the fix commit; see known_findings.json.

import (
	"bytes"
	"fmt"
	"testing"
	"time"

	"github.com/parquet-go/parquet-go"
)

// Pre-existing (unchanged tree): with deferred bloom filters and no internal
// write buffer (WriteBufferSize(0)), the deferred filters are copied to the sink
// by memory.Buffer.WriteTo, which is handed the RAW sink (io.Copy prefers the
// source's WriteTo). That loop retries for as long as the sink reports no error,
// so a sink which short-writes without an error once it is full (n < len(p),
// nil; then 0, nil) is never reported: Close neither returns an error nor
// returns at all. Every other write of the file goes through
// offsetTrackingWriter.Write, which turns the same short count into
// io.ErrShortWrite.

type pre2Row struct {
	Name string `parquet:"name"`
}

// pre2FullSink accepts limit bytes, then short-writes without an error.
type pre2FullSink struct {
	buf   bytes.Buffer
	limit int
}

func (s *pre2FullSink) Write(p []byte) (int, error) {
	room := s.limit - s.buf.Len()
	if room < 0 {
		room = 0
	}
	if len(p) > room {
		p = p[:room]
	}
	s.buf.Write(p)
	return len(p), nil
}

func TestD89CloseSpinsOnShortWrite(t *testing.T) {
	rows := make([]pre2Row, 100)
	for i := range rows {
		rows[i].Name = fmt.Sprintf("name-%03d", i)
	}
	options := func() []parquet.WriterOption {
		return []parquet.WriterOption{
			parquet.WriteBufferSize(0),
			parquet.BloomFilters(parquet.SplitBlockFilter(10, "name")),
			parquet.DeferBloomFiltersWithBuffers(parquet.NewBufferPool()),
		}
	}

	// Reference run: where do the deferred bloom filter bytes lie?
	ref := new(bytes.Buffer)
	w := parquet.NewGenericWriter[pre2Row](ref, options()...)
	if _, err := w.Write(rows); err != nil {
		t.Fatal(err)
	}
	if err := w.Close(); err != nil {
		t.Fatal(err)
	}
	f, err := parquet.OpenFile(bytes.NewReader(ref.Bytes()), int64(ref.Len()))
	if err != nil {
		t.Fatal(err)
	}
	meta := f.Metadata().RowGroups[0].Columns[0].MetaData
	if meta.BloomFilterOffset == 0 || meta.BloomFilterLength == 0 {
		t.Fatalf("no bloom filter in the reference file: %+v", meta)
	}
	// The sink fills up in the middle of the bloom filter.
	limit := int(meta.BloomFilterOffset) + int(meta.BloomFilterLength)/2

	sink := &pre2FullSink{limit: limit}
	done := make(chan error, 1)
	go func() {
		w := parquet.NewGenericWriter[pre2Row](sink, options()...)
		if _, err := w.Write(rows); err != nil {
			done <- err
			return
		}
		done <- w.Close()
	}()

	select {
	case err := <-done:
		if err == nil {
			t.Fatalf("sink accepted %d of %d bytes, Write and Close returned nil", sink.buf.Len(), ref.Len())
		}
		t.Logf("reported: %v", err)
	case <-time.After(10 * time.Second):
		t.Fatalf("sink full after %d of %d bytes (short writes, no error): Close still has not returned after 10s", limit, ref.Len())
	}
}
