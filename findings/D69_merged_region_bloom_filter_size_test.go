package scratch

import (
	"bytes"
	"fmt"
	"testing"

	"github.com/parquet-go/parquet-go"
)

type preexisting4Row struct {
	ID   int64    `parquet:"id"`
	Tags []string `parquet:"tags"`
}

// TestD69MergedRegionBloomFilterSize: two sorted files overlap in
// part of their key range, so MergeRowGroups plans lone stretches (row-range
// views) around a merged region built from row-range views. The destination
// writer builds a bloom filter for the repeated column. With the row path,
// each output row group's filter is sized for the values the row group holds;
// with WriteRowGroup, the merged region's filter is sized from the value count
// of the whole base column chunks (an upper bound).
func TestD69MergedRegionBloomFilterSize(t *testing.T) {
	makeRows := func(from, to int) []preexisting4Row {
		rows := make([]preexisting4Row, 0, to-from)
		for i := from; i < to; i++ {
			r := preexisting4Row{ID: int64(i)}
			for j := 0; j < i%6; j++ {
				r.Tags = append(r.Tags, fmt.Sprintf("tag-%d-%d", i, j))
			}
			rows = append(rows, r)
		}
		return rows
	}

	sorting := parquet.SortingWriterConfig(parquet.SortingColumns(parquet.Ascending("id")))

	openFile := func(rows []preexisting4Row) *parquet.File {
		buf := new(bytes.Buffer)
		w := parquet.NewGenericWriter[preexisting4Row](buf, sorting, parquet.PageBufferSize(2048))
		if _, err := w.Write(rows); err != nil {
			t.Fatal(err)
		}
		if err := w.Close(); err != nil {
			t.Fatal(err)
		}
		f, err := parquet.OpenFile(bytes.NewReader(buf.Bytes()), int64(buf.Len()))
		if err != nil {
			t.Fatal(err)
		}
		return f
	}

	fa := openFile(makeRows(0, 5000))
	fb := openFile(makeRows(4000, 9000))

	merge := func() parquet.RowGroup {
		m, err := parquet.MergeRowGroups(
			[]parquet.RowGroup{fa.RowGroups()[0], fb.RowGroups()[0]},
			parquet.SortingRowGroupConfig(parquet.SortingColumns(parquet.Ascending("id"))),
		)
		if err != nil {
			t.Fatal(err)
		}
		return m
	}

	tagsFilter := parquet.SplitBlockFilter(10, "tags")
	options := []parquet.WriterOption{sorting, parquet.BloomFilters(tagsFilter)}

	check := func(name string, b []byte) (bad int) {
		f, err := parquet.OpenFile(bytes.NewReader(b), int64(len(b)))
		if err != nil {
			t.Fatal(err)
		}
		if f.NumRows() != 10000 {
			t.Fatalf("%s: %d rows, want 10000", name, f.NumRows())
		}
		for i, rg := range f.RowGroups() {
			chunk := rg.ColumnChunks()[1]
			filter := chunk.BloomFilter()
			if filter == nil {
				t.Fatalf("%s: row group %d has no bloom filter", name, i)
			}
			want := int64(tagsFilter.Size(chunk.NumValues()))
			if filter.Size() != want {
				t.Logf("%s: row group %d (%d rows, %d values): bloom filter of %d bytes, the configuration prescribes %d", name, i, rg.NumRows(), chunk.NumValues(), filter.Size(), want)
				bad++
			}
		}
		return bad
	}

	// Row path.
	ref := new(bytes.Buffer)
	rw := parquet.NewGenericWriter[preexisting4Row](ref, options...)
	rows := merge().Rows()
	if _, err := parquet.CopyRows(rw, rows); err != nil {
		t.Fatal(err)
	}
	rows.Close()
	if err := rw.Close(); err != nil {
		t.Fatal(err)
	}
	if bad := check("row path", ref.Bytes()); bad != 0 {
		t.Fatalf("row path: %d row groups with a wrongly sized bloom filter", bad)
	}

	// WriteRowGroup.
	out := new(bytes.Buffer)
	ow := parquet.NewGenericWriter[preexisting4Row](out, options...)
	if _, err := ow.WriteRowGroup(merge()); err != nil {
		t.Fatal(err)
	}
	if err := ow.Close(); err != nil {
		t.Fatal(err)
	}
	if bad := check("WriteRowGroup", out.Bytes()); bad != 0 {
		t.Errorf("WriteRowGroup: %d row groups with a bloom filter whose size differs from what the row path produces for the same values", bad)
	}
}
