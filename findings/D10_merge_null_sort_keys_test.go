package scratch

import (
	"bytes"
	"io"
	"testing"

	"github.com/parquet-go/parquet-go"
)

type RD10 struct {
	K *int64 `parquet:"k,optional"`
	P int64  `parquet:"p"`
}

func d10RowGroup(t *testing.T, rows []RD10, sorting parquet.SortingColumn) parquet.RowGroup {
	var buf bytes.Buffer
	w := parquet.NewGenericWriter[RD10](&buf, parquet.SortingWriterConfig(parquet.SortingColumns(sorting)))
	if _, err := w.Write(rows); err != nil {
		t.Fatal(err)
	}
	if err := w.Close(); err != nil {
		t.Fatal(err)
	}
	f, err := parquet.OpenFile(bytes.NewReader(buf.Bytes()), int64(buf.Len()))
	if err != nil {
		t.Fatal(err)
	}
	return f.RowGroups()[0]
}

// D10 (C09): merging file row groups sorted on a nullable key: the key range of a
// row group is taken from its non-null page bounds only, so a group ending (or
// starting) with null keys is judged disjoint from one it overlaps with and the
// groups are concatenated instead of merged.
func TestD10MergeNullSortKeys(t *testing.T) {
	p := func(i int64) *int64 { return &i }
	for _, tc := range []struct {
		name    string
		sorting parquet.SortingColumn
		a, b    []RD10
	}{
		{"nulls last", parquet.Ascending("k"), []RD10{{p(1), 1}, {p(2), 2}, {nil, 3}}, []RD10{{p(3), 4}, {p(4), 5}}},
		{"nulls first", parquet.NullsFirst(parquet.Ascending("k")), []RD10{{p(3), 4}, {p(4), 5}}, []RD10{{nil, 3}, {p(1), 1}, {p(2), 2}}},
	} {
		a := d10RowGroup(t, tc.a, tc.sorting)
		b := d10RowGroup(t, tc.b, tc.sorting)
		m, err := parquet.MergeRowGroups([]parquet.RowGroup{a, b}, parquet.SortingRowGroupConfig(parquet.SortingColumns(tc.sorting)))
		if err != nil {
			t.Fatal(err)
		}
		rr := m.Rows()
		var keys []parquet.Value
		rows := make([]parquet.Row, 10)
		for {
			n, err := rr.ReadRows(rows)
			for i := 0; i < n; i++ {
				keys = append(keys, rows[i][0].Clone())
			}
			if err == io.EOF {
				break
			}
			if err != nil {
				t.Fatal(err)
			}
		}
		rr.Close()
		if len(keys) != len(tc.a)+len(tc.b) {
			t.Errorf("%s: %d rows, want %d", tc.name, len(keys), len(tc.a)+len(tc.b))
		}
		// once a null key has been seen (nulls last) no non-null key may follow;
		// with nulls first no null may follow a non-null key
		nullsFirst := tc.name == "nulls first"
		seenNull, seenValue := false, false
		for i, k := range keys {
			if k.IsNull() {
				seenNull = true
				if nullsFirst && seenValue {
					t.Errorf("%s: null key at position %d after a non-null key: %v", tc.name, i, keys)
					break
				}
			} else {
				seenValue = true
				if !nullsFirst && seenNull {
					t.Errorf("%s: non-null key %v at position %d after a null key: %v", tc.name, k, i, keys)
					break
				}
			}
		}
	}
}
