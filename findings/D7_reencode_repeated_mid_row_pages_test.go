package scratch

import (
	"bytes"
	"io"
	"testing"

	"github.com/parquet-go/parquet-go"
	"github.com/parquet-go/parquet-go/compress/snappy"
)

type RD7 struct {
	A []int64 `parquet:"a"`
}

// D7 (C02, C11): a repeated column re-encoded column-wise by WriteRowGroup
// (different codec => not copyable verbatim): copyColumnValues hands
// WriteRowValues 1024-value batches that end mid-row, so data pages start in
// the middle of a row.
func TestD7ReencodeRepeatedMidRowPages(t *testing.T) {
	var src bytes.Buffer
	w := parquet.NewGenericWriter[RD7](&src)
	rows := []RD7{}
	for i := 0; i < 50; i++ {
		a := make([]int64, 100)
		for j := range a {
			a[j] = int64(i*1000 + j)
		}
		rows = append(rows, RD7{a})
	}
	w.Write(rows)
	if err := w.Close(); err != nil {
		t.Fatal(err)
	}
	f, err := parquet.OpenFile(bytes.NewReader(src.Bytes()), int64(src.Len()))
	if err != nil {
		t.Fatal(err)
	}
	var dst bytes.Buffer
	w2 := parquet.NewGenericWriter[RD7](&dst, parquet.Compression(&snappy.Codec{}), parquet.PageBufferSize(512), parquet.DataPageVersion(2))
	if _, err := w2.WriteRowGroup(f.RowGroups()[0]); err != nil {
		t.Fatal(err)
	}
	if err := w2.Close(); err != nil {
		t.Fatal(err)
	}
	g, err := parquet.OpenFile(bytes.NewReader(dst.Bytes()), int64(dst.Len()))
	if err != nil {
		t.Fatal(err)
	}
	pages := g.RowGroups()[0].ColumnChunks()[0].Pages()
	defer pages.Close()
	midRow, sumRows := 0, int64(0)
	for {
		p, err := pages.ReadPage()
		if err == io.EOF {
			break
		}
		if err != nil {
			t.Fatal(err)
		}
		sumRows += p.NumRows()
		if rl := p.RepetitionLevels(); len(rl) > 0 && rl[0] != 0 {
			midRow++
		}
	}
	if midRow != 0 {
		t.Errorf("%d data pages start in the middle of a row", midRow)
	}
	if sumRows != 50 {
		t.Errorf("page row counts add up to %d, row group has 50 rows", sumRows)
	}
	r := parquet.NewGenericReader[RD7](g)
	out := make([]RD7, 60)
	n, _ := r.Read(out)
	ok := 0
	for i := 0; i < n && i < 50; i++ {
		if len(out[i].A) == 100 && out[i].A[99] == int64(i*1000+99) {
			ok++
		}
	}
	if n != 50 || ok != 50 {
		t.Errorf("read back %d rows, %d intact (want 50, 50)", n, ok)
	}
}
