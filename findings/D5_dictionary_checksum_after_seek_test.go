package scratch

import (
	"bytes"
	"fmt"
	"testing"

	"github.com/parquet-go/parquet-go"
)

type DS struct {
	S string `parquet:"s,dict"`
}

// D5 (C13): corruption inside the dictionary page body must be reported also
// when the dictionary is loaded lazily after a seek.
func TestD5DictionaryChecksumAfterSeek(t *testing.T) {
	var buf bytes.Buffer
	w := parquet.NewGenericWriter[DS](&buf, parquet.PageBufferSize(256), parquet.Compression(&parquet.Uncompressed))
	rows := make([]DS, 2000)
	for i := range rows {
		rows[i].S = fmt.Sprintf("value-%03d", i%50)
	}
	w.Write(rows)
	if err := w.Close(); err != nil {
		t.Fatal(err)
	}
	data := buf.Bytes()
	f, err := parquet.OpenFile(bytes.NewReader(data), int64(len(data)))
	if err != nil {
		t.Fatal(err)
	}
	cc := f.Metadata().RowGroups[0].Columns[0].MetaData
	if cc.DictionaryPageOffset == 0 {
		t.Skip("no dictionary page offset")
	}
	// flip one bit well inside the dictionary page body ("value-0NN" strings)
	idx := bytes.Index(data[cc.DictionaryPageOffset:], []byte("value-007"))
	if idx < 0 {
		t.Fatal("dictionary entry not found")
	}
	corrupted := append([]byte(nil), data...)
	corrupted[int(cc.DictionaryPageOffset)+idx+6] ^= 0x01 // value-007 -> value-107
	f2, err := parquet.OpenFile(bytes.NewReader(corrupted), int64(len(corrupted)))
	if err != nil {
		return // reported at open: fine
	}
	pages := f2.RowGroups()[0].ColumnChunks()[0].Pages()
	defer pages.Close()
	if err := pages.SeekToRow(1500); err != nil {
		return
	}
	p, err := pages.ReadPage()
	if err != nil {
		t.Logf("reported: %v", err)
		return
	}
	vals := make([]parquet.Value, p.NumValues())
	n, _ := p.Values().ReadValues(vals)
	for _, v := range vals[:n] {
		if s := string(v.ByteArray()); len(s) != 9 || s[:6] != "value-" || s[6] > '0' {
			t.Fatalf("corrupted dictionary value %q returned without error", s)
		}
	}
	// even if this page does not reference the flipped entry, the dictionary body was never checksummed
	t.Errorf("page after seek was read without error although the dictionary page body is corrupted")
}
