package scratch

import (
	"bytes"
	"fmt"
	"testing"

	"github.com/parquet-go/parquet-go"
)

type RD23 struct {
	S string `parquet:"s,dict"`
	N int64  `parquet:"n"`
}

type keysD23 struct{}

func (keysD23) FooterKey([]byte) ([]byte, error)           { return []byte("0123456789abcdef"), nil }
func (keysD23) ColumnKey([]string, []byte) ([]byte, error) { return []byte("0123456789abcdef"), nil }

// D23 (C02): encrypted file, dictionary-encoded column with several data pages.
// The offset index must describe the pages: consecutive page locations are
// contiguous (offset[k] + size[k] == offset[k+1]) and the last page ends where the
// column chunk ends.  Writing the (encrypted) dictionary page at the end of the row
// group patched the size of the LAST DATA PAGE with the dictionary page's size.
func TestD23EncryptedDictionaryColumnOffsetIndex(t *testing.T) {
	for _, encFooter := range []bool{true, false} {
		cfg := &parquet.EncryptionConfig{FooterKey: []byte("0123456789abcdef"), EncryptedFooter: encFooter}
		var buf bytes.Buffer
		w := parquet.NewGenericWriter[RD23](&buf, parquet.WithEncryption(cfg), parquet.PageBufferSize(256))
		rows := make([]RD23, 3000)
		for i := range rows {
			rows[i] = RD23{fmt.Sprintf("v%03d", i%97), int64(i)}
		}
		w.Write(rows)
		if err := w.Close(); err != nil {
			t.Fatal(err)
		}
		f, err := parquet.OpenFile(bytes.NewReader(buf.Bytes()), int64(buf.Len()), parquet.WithDecryption(keysD23{}))
		if err != nil {
			t.Fatal(err)
		}
		for ci, cc := range f.RowGroups()[0].ColumnChunks() {
			meta := f.Metadata().RowGroups[0].Columns[ci].MetaData
			oi, err := cc.OffsetIndex()
			if err != nil || oi == nil {
				t.Fatalf("offset index: %v", err)
			}
			start := meta.DataPageOffset
			if meta.DictionaryPageOffset != 0 {
				start = meta.DictionaryPageOffset
			}
			end := start + meta.TotalCompressedSize
			n := oi.NumPages()
			if n < 3 {
				t.Fatalf("test setup: only %d pages", n)
			}
			for k := 0; k < n; k++ {
				next := end
				if k+1 < n {
					next = oi.Offset(k + 1)
				}
				if oi.Offset(k)+oi.CompressedPageSize(k) != next {
					t.Errorf("encryptedFooter=%v column %d page %d of %d: offset %d + size %d != %d (start of the next page / end of the chunk)", encFooter, ci, k, n, oi.Offset(k), oi.CompressedPageSize(k), next)
				}
			}
		}
	}
}
