package scratch

import (
	"bytes"
	"testing"

	"github.com/parquet-go/parquet-go"
)

type S2 struct {
	V string `parquet:"v"`
}

// D2 (C05/C06): truncated max of a value whose kept prefix is all 0xFF is not an upper bound.
func TestD2TruncatedMaxAllFF(t *testing.T) {
	var buf bytes.Buffer
	w := parquet.NewGenericWriter[S2](&buf, parquet.ColumnIndexSizeLimit(func([]string) int { return 2 }))
	w.Write([]S2{{"\xff\xff\xffz"}, {"\xff\xff\x01"}})
	if err := w.Close(); err != nil {
		t.Fatal(err)
	}
	f, err := parquet.OpenFile(bytes.NewReader(buf.Bytes()), int64(buf.Len()))
	if err != nil {
		t.Fatal(err)
	}
	cc := f.RowGroups()[0].ColumnChunks()[0]
	ci, _ := cc.ColumnIndex()
	for i := 0; i < ci.NumPages(); i++ {
		mx := ci.MaxValue(i).ByteArray()
		if bytes.Compare(mx, []byte("\xff\xff\xffz")) < 0 {
			t.Errorf("page %d: recorded max %q is below the written value %q", i, mx, "\xff\xff\xffz")
		}
	}
	if r := parquet.Search(ci, parquet.ByteArrayValue([]byte("\xff\xff\xffz")), cc.Type()); r >= ci.NumPages() {
		t.Errorf("Search for a written value returned NumPages")
	}
}
