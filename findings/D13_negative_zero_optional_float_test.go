package scratch

import (
	"bytes"
	"math"
	"testing"

	"github.com/parquet-go/parquet-go"
)

type RD13 struct {
	F float64 `parquet:"f,optional"`
	G float32 `parquet:"g,optional"`
}

// D13 (C03, C17): an optional (non-pointer) float field holding -0.0.  The zero
// value of a value-typed optional field is null; the portable build's typed
// writer and the reflection-based Write test `v == 0` (so -0.0 is null), the
// default build's typed writer used the integer bit-test kernels (so -0.0 was a
// value).  Run with RUNDEMO_FLAGS="-tags purego" and without: both builds and
// both ingestion paths must agree.
func TestD13NegativeZeroOptionalFloat(t *testing.T) {
	negZero := math.Copysign(0, -1)
	rows := []RD13{{F: negZero, G: float32(negZero)}, {F: 1, G: 1}, {}}
	read := func(buf *bytes.Buffer) (nulls [2]int64) {
		f, err := parquet.OpenFile(bytes.NewReader(buf.Bytes()), int64(buf.Len()))
		if err != nil {
			t.Fatal(err)
		}
		for c := 0; c < 2; c++ {
			nulls[c] = f.Metadata().RowGroups[0].Columns[c].MetaData.Statistics.NullCount
		}
		return nulls
	}
	var typed, reflected bytes.Buffer
	w1 := parquet.NewGenericWriter[RD13](&typed)
	w1.Write(rows)
	w1.Close()
	w2 := parquet.NewWriter(&reflected, parquet.SchemaOf(RD13{}))
	for i := range rows {
		w2.Write(&rows[i])
	}
	w2.Close()
	a, b := read(&typed), read(&reflected)
	if a != b {
		t.Errorf("null counts differ between ingestion paths: typed writer %v, reflection-based Write %v", a, b)
	}
	if a != [2]int64{2, 2} {
		t.Errorf("typed writer: null counts %v, want [2 2] (-0.0 == 0 is the zero value of the field, as in the portable build)", a)
	}
}
