package scratch

import (
	"bytes"
	"testing"

	"github.com/parquet-go/parquet-go"
	"github.com/parquet-go/parquet-go/encoding/thrift"
	"github.com/parquet-go/parquet-go/format"
)

type preexisting3Row struct {
	ID int64 `parquet:"id"`
}

// D68 (C11), failed before the fix commit. TestD68CopyPathDataPageStatistics: the destination writer is configured
// not to write statistics in data page headers (DataPageStatistics(false));
// the source file was written with the default (statistics in page headers).
// WriteRowGroup copies the source pages verbatim, page header statistics
// included, while the row path honours the setting.
func TestD68CopyPathDataPageStatistics(t *testing.T) {
	rows := make([]preexisting3Row, 500)
	for i := range rows {
		rows[i] = preexisting3Row{ID: int64(i) + 100}
	}

	src := new(bytes.Buffer)
	sw := parquet.NewGenericWriter[preexisting3Row](src)
	if _, err := sw.Write(rows); err != nil {
		t.Fatal(err)
	}
	if err := sw.Close(); err != nil {
		t.Fatal(err)
	}
	srcFile, err := parquet.OpenFile(bytes.NewReader(src.Bytes()), int64(src.Len()))
	if err != nil {
		t.Fatal(err)
	}

	ref := new(bytes.Buffer)
	rw := parquet.NewGenericWriter[preexisting3Row](ref, parquet.DataPageStatistics(false))
	for i := range rows {
		if _, err := rw.Write(rows[i : i+1]); err != nil {
			t.Fatal(err)
		}
	}
	if err := rw.Close(); err != nil {
		t.Fatal(err)
	}

	out := new(bytes.Buffer)
	ow := parquet.NewGenericWriter[preexisting3Row](out, parquet.DataPageStatistics(false))
	for _, rg := range srcFile.RowGroups() {
		if _, err := ow.WriteRowGroup(rg); err != nil {
			t.Fatal(err)
		}
	}
	if err := ow.Close(); err != nil {
		t.Fatal(err)
	}

	// firstPageHasStatistics decodes the header of the first data page of the
	// first column chunk and reports whether it carries min/max statistics.
	firstPageHasStatistics := func(b []byte) bool {
		f, err := parquet.OpenFile(bytes.NewReader(b), int64(len(b)))
		if err != nil {
			t.Fatal(err)
		}
		offset := f.Metadata().RowGroups[0].Columns[0].MetaData.DataPageOffset
		header := new(format.PageHeader)
		protocol := new(thrift.CompactProtocol)
		if err := thrift.NewDecoder(protocol.NewReader(bytes.NewReader(b[offset:]))).Decode(header); err != nil {
			t.Fatal(err)
		}
		var stats format.Statistics
		switch header.Type {
		case format.DataPage:
			stats = header.DataPageHeader.V.Statistics
		case format.DataPageV2:
			stats = header.DataPageHeaderV2.V.Statistics
		default:
			t.Fatalf("unexpected page type %v", header.Type)
		}
		return len(stats.MinValue) > 0 || len(stats.MaxValue) > 0 || len(stats.Min) > 0 || len(stats.Max) > 0
	}

	if firstPageHasStatistics(ref.Bytes()) {
		t.Fatal("row path: data page header carries statistics despite DataPageStatistics(false)")
	}
	if firstPageHasStatistics(out.Bytes()) {
		t.Error("WriteRowGroup: data page header carries statistics despite DataPageStatistics(false); the row path writes none")
	}
}
