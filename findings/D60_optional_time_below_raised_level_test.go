package scratch

// D60 (C03): failed before the fix commit; see known_findings.json.
//
// An optional time.Time field that sits below anything that already raised the
// definition level (an element of a repeated group, a struct behind a pointer,
// an optional struct) is written as NULL by the typed paths
// (GenericWriter[T].Write, GenericBuffer[T].Write) even when the time is set:
// writeRowsFuncOfTime treats "definitionLevel > 0" as "a pointer wrapper already
// accounted for my optionality" and never increments the level. The
// reflection paths (Schema.Deconstruct, Writer.Write(any), Buffer.Write(any))
// store the value at the max definition level.

import (
	"testing"
	"time"

	"github.com/parquet-go/parquet-go"
)

type pre1Item struct {
	T time.Time `parquet:"t,optional"`
}

type pre1Row struct {
	Items []pre1Item `parquet:"items"`
	P     *pre1Item  `parquet:"p"`
}

func TestD60OptionalTimeBelowRaisedLevel(t *testing.T) {
	t0 := time.Date(2024, 1, 2, 3, 4, 5, 6, time.UTC)
	values := []pre1Row{{
		Items: []pre1Item{{T: t0}, {}, {T: t0.Add(time.Hour)}},
		P:     &pre1Item{T: t0},
	}}
	schema := parquet.SchemaOf(pre1Row{})
	want := schema.Deconstruct(nil, &values[0])

	buf := parquet.NewGenericBuffer[pre1Row]()
	if _, err := buf.Write(values); err != nil {
		t.Fatal(err)
	}
	rows := buf.Rows()
	defer rows.Close()
	got := make([]parquet.Row, 1)
	if n, _ := rows.ReadRows(got); n != 1 {
		t.Fatalf("read %d rows", n)
	}
	if !got[0].Equal(want) {
		t.Errorf("GenericBuffer.Write and Schema.Deconstruct disagree\n typed:       %+v\n deconstruct: %+v", got[0], want)
	}
}
