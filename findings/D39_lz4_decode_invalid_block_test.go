package scratch

import (
	"bytes"
	"testing"

	"github.com/parquet-go/parquet-go/compress/lz4"
)

// D39 (C20 premise, C13 for files without page checksums): lz4.Codec.Decode took
// every error of the block decoder to mean "output buffer too small" and doubled
// the buffer forever: three bytes of invalid input ran the process out of memory
// instead of failing.  Run on the unfixed tree only under a memory limit.
func TestD39LZ4DecodeInvalidBlock(t *testing.T) {
	codec := &lz4.Codec{Level: lz4.Fast}
	if _, err := codec.Decode(nil, []byte{0xF0, 0x01, 0x02}); err == nil {
		t.Errorf("Decode of an invalid block returned no error")
	}
	// highly compressible data still round-trips (expansion close to the bound)
	for _, n := range []int{0, 1, 100, 1 << 20} {
		x := bytes.Repeat([]byte{7}, n)
		enc, err := codec.Encode(nil, x)
		if err != nil {
			t.Fatal(err)
		}
		dec, err := codec.Decode(nil, enc)
		if err != nil || !bytes.Equal(dec, x) {
			t.Errorf("round trip of %d equal bytes (%d encoded): err=%v", n, len(enc), err)
		}
	}
}
