package scratch

import (
	"bytes"
	"testing"

	"github.com/parquet-go/parquet-go"
)

type InnerD36 struct {
	X int64 `parquet:"x"`
}

// the protobuf-style shape: a repeated group whose Go elements are pointers
type RD36 struct {
	L []*InnerD36 `parquet:"l"`
}

func readXs(t *testing.T, data []byte) (xs []int64) {
	f, err := parquet.OpenFile(bytes.NewReader(data), int64(len(data)))
	if err != nil {
		t.Fatal(err)
	}
	r := f.RowGroups()[0].Rows()
	defer r.Close()
	buf := make([]parquet.Row, 4)
	for {
		n, err := r.ReadRows(buf)
		for _, row := range buf[:n] {
			for _, v := range row {
				if !v.IsNull() {
					xs = append(xs, v.Int64())
				}
			}
		}
		if err != nil {
			return xs
		}
	}
}

// D36 (C03, C01): a nil pointer among the elements of a repeated (non-optional)
// group has no definition level to be recorded as absent.  The reflection path
// writes the zero value in its place; the typed path appended the levels of a
// present value without any value, so the values after it moved up one slot and a
// stray zero appeared at the end: {1, nil, 3} read back as 1, 3, 0.
func TestD36NilPointerInRepeatedGroup(t *testing.T) {
	rows := []RD36{{L: []*InnerD36{{X: 1}, nil, {X: 3}}}}
	var typed, refl bytes.Buffer
	tw := parquet.NewGenericWriter[RD36](&typed)
	if _, err := tw.Write(rows); err != nil {
		t.Fatal(err)
	}
	if err := tw.Close(); err != nil {
		t.Fatal(err)
	}
	rw := parquet.NewWriter(&refl, parquet.SchemaOf(RD36{}))
	if err := rw.Write(&rows[0]); err != nil {
		t.Fatal(err)
	}
	if err := rw.Close(); err != nil {
		t.Fatal(err)
	}
	a, b := readXs(t, typed.Bytes()), readXs(t, refl.Bytes())
	want := []int64{1, 0, 3}
	for i := range want {
		if len(a) != 3 || a[i] != want[i] {
			t.Errorf("typed path stored x = %v, want %v", a, want)
			break
		}
	}
	for i := range want {
		if len(b) != 3 || b[i] != want[i] {
			t.Errorf("reflection path stored x = %v, want %v", b, want)
			break
		}
	}
}
