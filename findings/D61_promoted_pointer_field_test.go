package scratch

// D61 (C03): failed before the fix commit; see known_findings.json.
//
// A pointer field promoted from an embedded struct: Schema.Deconstruct (and so
// Writer.Write(any), RowBuffer.Write) goes through fieldByIndex, which
// dereferences the pointer before the optional check. A pointer to a zero value
// is therefore shredded as NULL (definition level 0), where the typed paths
// store the value 0 at definition level 1. fieldByIndex also allocates nil
// pointers in place, so Deconstruct mutates the value it is given: a row whose
// pointer was nil is non-nil afterwards and the typed path then writes it as
// present.

import (
	"testing"

	"github.com/parquet-go/parquet-go"
)

type pre2Emb struct {
	P *int64 `parquet:"p"`
}

type pre2Row struct {
	A int64 `parquet:"a"`
	pre2Emb
}

func pre2Typed(t *testing.T, values []pre2Row) []parquet.Row {
	buf := parquet.NewGenericBuffer[pre2Row]()
	if _, err := buf.Write(values); err != nil {
		t.Fatal(err)
	}
	rows := buf.Rows()
	defer rows.Close()
	got := make([]parquet.Row, len(values))
	if n, _ := rows.ReadRows(got); n != len(values) {
		t.Fatalf("read %d rows", n)
	}
	return got
}

func TestD61PointerPromotedFromEmbeddedStruct(t *testing.T) {
	zero := int64(0)
	values := []pre2Row{{A: 1, pre2Emb: pre2Emb{P: &zero}}, {A: 2}}
	schema := parquet.SchemaOf(pre2Row{})

	typed := pre2Typed(t, values)
	for i := range values {
		want := schema.Deconstruct(nil, &values[i])
		if !typed[i].Equal(want) {
			t.Errorf("row %d: GenericBuffer.Write and Schema.Deconstruct disagree\n typed:       %+v\n deconstruct: %+v", i, typed[i], want)
		}
	}
	if values[1].P != nil {
		t.Errorf("Schema.Deconstruct modified its input: the nil pointer of row 1 is now %v", values[1].P)
	}
}
