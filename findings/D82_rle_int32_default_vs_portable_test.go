package scratch
// D82 (C17): failed in the default build before the fix commit; see known_findings.json.

// PRE-EXISTING (unchanged tree) violation of C17: the RLE/bit-packed hybrid
// encoder of INT32 values (used for RLE_DICTIONARY data pages) emits different
// bytes in the default amd64 build (AVX2 kernel
// encodeInt32IndexEqual8ContiguousAVX2) and in the portable build (-tags
// purego, encodeInt32IndexEqual8ContiguousDefault).
//
// Place in encoding/rle and run:
//   go test -vet=off -count=1 -timeout 600s -run TestD82RLEInt32Builds ./encoding/rle              -> FAIL (AVX2 CPU)
//   go test -vet=off -count=1 -timeout 600s -tags purego -run TestD82RLEInt32Builds ./encoding/rle -> PASS
//
// The golden bytes are what the portable build produces (one bit-packed run of
// two groups of 8 values); the accelerated build splits it in two bit-packed
// runs of one group each whenever a group of 8 values that is not uniform
// starts with 4 equal values. Both decode to the same values, but the file
// bytes depend on the build.

import (
	"encoding/hex"
	"testing"

	"github.com/parquet-go/parquet-go/encoding/rle"
)

func TestD82RLEInt32Builds(t *testing.T) {
	for _, test := range []struct {
		bitWidth int
		values   []int32
		golden   string // output of the portable (purego) build
	}{
		{2, []int32{2, 2, 1, 2, 1, 2, 0, 0, 3, 3, 3, 3, 1, 1, 1, 1}, "059a09ff55"},
		{3, []int32{3, 2, 2, 2, 2, 2, 2, 2, 2, 2, 2, 2, 5, 5, 5, 5}, "0593244992d4b6"},
	} {
		e := &rle.Encoding{BitWidth: test.bitWidth}
		dst, err := e.EncodeInt32(nil, test.values)
		if err != nil {
			t.Fatal(err)
		}
		if got := hex.EncodeToString(dst); got != test.golden {
			t.Errorf("bitWidth=%d values=%v: encoded %s, the portable build encodes %s", test.bitWidth, test.values, got, test.golden)
		}
	}
}
