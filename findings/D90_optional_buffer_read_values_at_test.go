package scratch

// D90 (C10): failed before the fix commit; see known_findings.json.

// PRE-EXISTING (fails on the UNCHANGED tree, independent of patch.diff).
//
// Place in the repository root and run:
//   GOFLAGS=-mod=mod GOPROXY=off go test -vet=off -count=1 -timeout 600s -run TestPreexisting2 .
//
// optionalColumnBuffer.Swap only exchanges the row indexes and definition
// levels; the base column is reordered lazily by Page(). ReadValuesAt (the
// ValueReaderAt side of the public ColumnBuffer interface, reachable through
// GenericBuffer.ColumnBuffers()) reads the base column positionally without
// materializing the pending reordering, so after sort.Sort the optional column
// still yields its values in the order they were written while the required
// columns of the same buffer yield theirs in sorted order: read through
// ReadValuesAt, the rows of a sorted buffer are not intact across columns.
// (Calling Page()/Rows() first hides the problem because it materializes the
// reordering.)
//
// The third sub-test documents a separate slip in the same function which does
// not need sorting at all: the backward null-spreading loop starts from
// i := numNulls2 - 1 instead of the index of the last non-null value
// (length - numNulls2 - 1, as repeatedColumnBuffer.ReadValuesAt does), which
// panics with index out of range [-1] (or misplaces values) whenever the
// number of nulls differs from the number of non-null values in the window.

import (
	"fmt"
	"sort"
	"testing"

	"github.com/parquet-go/parquet-go"
)

type preexisting2Row struct {
	K int64  `parquet:"k"`
	O *int64 `parquet:"o,optional"`
}

func preexisting2Read(col parquet.ColumnBuffer, n int) (s []string, err error) {
	defer func() {
		if r := recover(); r != nil {
			err = fmt.Errorf("panic: %v", r)
		}
	}()
	values := make([]parquet.Value, n)
	m, _ := col.ReadValuesAt(values, 0)
	for _, v := range values[:m] {
		s = append(s, v.String())
	}
	return s, nil
}

func TestD90OptionalReadValuesAt(t *testing.T) {
	i64 := func(v int64) *int64 { return &v }

	tests := []struct {
		name  string
		rows  []preexisting2Row
		sort  bool
		wantK []string
		wantO []string
	}{
		{
			name:  "sorted-no-null",
			rows:  []preexisting2Row{{3, i64(30)}, {1, i64(10)}, {2, i64(20)}, {0, i64(0)}},
			sort:  true,
			wantK: []string{"0", "1", "2", "3"},
			wantO: []string{"0", "10", "20", "30"},
		},
		{
			name:  "sorted-with-nulls",
			rows:  []preexisting2Row{{3, i64(30)}, {1, nil}, {2, i64(20)}, {0, nil}},
			sort:  true,
			wantK: []string{"0", "1", "2", "3"},
			wantO: []string{"<null>", "<null>", "20", "30"},
		},
		{
			name:  "unsorted-one-null-of-four",
			rows:  []preexisting2Row{{0, i64(0)}, {1, i64(10)}, {2, nil}, {3, i64(30)}},
			sort:  false,
			wantK: []string{"0", "1", "2", "3"},
			wantO: []string{"0", "10", "<null>", "30"},
		},
	}

	for _, test := range tests {
		t.Run(test.name, func(t *testing.T) {
			buf := parquet.NewGenericBuffer[preexisting2Row](
				parquet.SortingRowGroupConfig(parquet.SortingColumns(parquet.Ascending("k"))),
			)
			if _, err := buf.Write(test.rows); err != nil {
				t.Fatal(err)
			}
			if test.sort {
				sort.Sort(buf)
			}
			columns := buf.ColumnBuffers()
			gotK, err := preexisting2Read(columns[0], len(test.rows))
			if err != nil {
				t.Fatalf("column k: %v", err)
			}
			gotO, err := preexisting2Read(columns[1], len(test.rows))
			if err != nil {
				t.Fatalf("column o: %v", err)
			}
			if fmt.Sprint(gotK) != fmt.Sprint(test.wantK) {
				t.Errorf("column k: got %v, want %v", gotK, test.wantK)
			}
			if fmt.Sprint(gotO) != fmt.Sprint(test.wantO) {
				t.Errorf("column o: got %v, want %v (column k reads %v)", gotO, test.wantO, gotK)
			}
		})
	}
}
