package scratch

import (
	"bytes"
	"testing"

	"github.com/parquet-go/parquet-go"
)

type OptV struct {
	V int32 `parquet:"v,optional"`
}

// D8 (C03/C01): a zero optional non-pointer field is null; the 64-row bitmap
// scan mis-detects the end of a run of non-null rows inside a word.
func TestD8OptionalBitmapScan(t *testing.T) {
	rows := make([]OptV, 128)
	rows[1].V = 7
	var buf bytes.Buffer
	w := parquet.NewGenericWriter[OptV](&buf)
	if _, err := w.Write(rows); err != nil {
		t.Fatal(err)
	}
	if err := w.Close(); err != nil {
		t.Fatal(err)
	}
	f, err := parquet.OpenFile(bytes.NewReader(buf.Bytes()), int64(buf.Len()))
	if err != nil {
		t.Fatal(err)
	}
	rr := f.RowGroups()[0].Rows()
	defer rr.Close()
	out := make([]parquet.Row, 128)
	n, _ := rr.ReadRows(out)
	if n != 128 {
		t.Fatalf("read %d rows", n)
	}
	for i, r := range out[:n] {
		isNull := r[0].IsNull()
		wantNull := rows[i].V == 0
		if isNull != wantNull {
			t.Errorf("row %d: null=%v, want %v (value %v)", i, isNull, wantNull, r[0])
		}
	}
}
