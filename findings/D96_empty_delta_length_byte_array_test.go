package scratch

// D96 (C04): failed before the fix commit; see known_findings.json.

// Pre-existing (unchanged tree). Place in encoding/delta and run:
//   go test -vet=off -count=1 -timeout 120s -run TestD96EmptyDeltaLengthByteArray ./encoding/delta/
//
// C04, length 0: DELTA_LENGTH_BYTE_ARRAY.EncodeByteArray of an empty sequence
// given as an empty offsets slice produces 0 bytes. Per the format a
// DELTA_LENGTH_BYTE_ARRAY page always starts with a DELTA_BINARY_PACKED header
// (block size, mini-block count, total count = 0, first value), so neither a
// spec decoder nor the library's own DecodeByteArray can read the output back:
// "DELTA_LENGTH_BYTE_ARRAY: decoding block size: unexpected EOF".
// PLAIN and DELTA_BYTE_ARRAY round-trip the same input fine, and the same
// encoding round-trips the empty sequence when it is given as offsets=[0].

import (
	"testing"

	"github.com/parquet-go/parquet-go/encoding"
	"github.com/parquet-go/parquet-go/encoding/delta"
	"github.com/parquet-go/parquet-go/encoding/plain"
)

func TestD96EmptyDeltaLengthByteArray(t *testing.T) {
	for _, e := range []encoding.Encoding{
		new(plain.Encoding),
		new(delta.ByteArrayEncoding),
		new(delta.LengthByteArrayEncoding),
	} {
		for _, offsets := range [][]uint32{{0}, {}, nil} {
			encoded, err := e.EncodeByteArray(nil, nil, offsets)
			if err != nil {
				t.Errorf("%s offsets=%v: encode: %v", e, offsets, err)
				continue
			}
			values, _, err := e.DecodeByteArray(nil, encoded, nil)
			if err != nil {
				t.Errorf("%s offsets=%v: decoding the %d bytes the encoder produced: %v", e, offsets, len(encoded), err)
				continue
			}
			if len(values) != 0 {
				t.Errorf("%s offsets=%v: decoded %d bytes of values, want 0", e, offsets, len(values))
			}
		}
	}
}
