package scratch
// D78 (C08): failed before the fix commit; see known_findings.json.

import (
	"bytes"
	"io"
	"testing"

	"github.com/parquet-go/parquet-go"
)

type pre1Row struct {
	ID int64 `parquet:"id"`
}

// After Reset, the row reader of the row group keeps the row index it had
// before the reset while its columns are back on row 0. A later SeekToRow to
// that stale index is taken for a no-op, and the following reads return rows
// from the wrong position.
func TestD78SeekAfterReset(t *testing.T) {
	const numRows = 1000
	rows := make([]pre1Row, numRows)
	for i := range rows {
		rows[i].ID = int64(i)
	}
	buf := new(bytes.Buffer)
	w := parquet.NewGenericWriter[pre1Row](buf)
	if _, err := w.Write(rows); err != nil {
		t.Fatal(err)
	}
	if err := w.Close(); err != nil {
		t.Fatal(err)
	}

	r := parquet.NewGenericReader[pre1Row](bytes.NewReader(buf.Bytes()))
	defer r.Close()

	got := make([]pre1Row, 100)
	if n, err := r.Read(got); n != 100 || (err != nil && err != io.EOF) {
		t.Fatalf("n=%d err=%v", n, err)
	}

	r.Reset()

	const seekTo = 100 // the position of the reader before Reset
	if err := r.SeekToRow(seekTo); err != nil {
		t.Fatal(err)
	}
	n, err := r.Read(got[:10])
	if n != 10 || (err != nil && err != io.EOF) {
		t.Fatalf("n=%d err=%v", n, err)
	}
	for i, row := range got[:10] {
		if want := int64(seekTo + i); row.ID != want {
			t.Fatalf("row %d after Reset+SeekToRow(%d): got id=%d want id=%d", i, seekTo, row.ID, want)
		}
	}
}
