package scratch

import (
	"bytes"
	"math"
	"testing"

	"github.com/parquet-go/parquet-go"
)

type RD43 struct {
	V float64 `parquet:"v"`
}

// D43 (C05, C06): a page holding only NaN gets NaN as both bounds (deliberately, so
// that readers see the page had data).  The boundary order of the column index was
// computed with Go's < and >, which are false for every comparison with NaN, so the
// bounds 1, NaN, 0.5 were declared ASCENDING; a page search for 0.5 then binary
// searched an unordered list and answered "no page can contain it".
func TestD43NaNPageBoundaryOrder(t *testing.T) {
	var out bytes.Buffer
	w := parquet.NewGenericWriter[RD43](&out)
	nan := math.NaN()
	for _, page := range [][]RD43{{{1}, {1}}, {{nan}, {nan}}, {{0.5}, {0.5}}} {
		if _, err := w.Write(page); err != nil {
			t.Fatal(err)
		}
		for _, c := range w.ColumnWriters() {
			if err := c.Flush(); err != nil {
				t.Fatal(err)
			}
		}
	}
	if err := w.Close(); err != nil {
		t.Fatal(err)
	}
	f, err := parquet.OpenFile(bytes.NewReader(out.Bytes()), int64(out.Len()))
	if err != nil {
		t.Fatal(err)
	}
	chunk := f.RowGroups()[0].ColumnChunks()[0]
	index, err := chunk.ColumnIndex()
	if err != nil {
		t.Fatal(err)
	}
	if index.NumPages() != 3 {
		t.Fatalf("%d pages", index.NumPages())
	}
	t.Logf("mins %v %v %v ascending=%v descending=%v", index.MinValue(0), index.MinValue(1), index.MinValue(2), index.IsAscending(), index.IsDescending())
	if index.IsAscending() && index.MinValue(0).Double() > index.MinValue(2).Double() {
		t.Errorf("the column index claims ascending bounds, but page 0 starts at %v and page 2 at %v", index.MinValue(0), index.MinValue(2))
	}
	if p := parquet.Search(index, parquet.DoubleValue(0.5), chunk.Type()); p > 2 {
		t.Errorf("Search(0.5) = %d of %d pages: page 2 holds 0.5", p, index.NumPages())
	}
}
