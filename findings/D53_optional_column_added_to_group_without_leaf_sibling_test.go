package scratch

import (
	"bytes"
	"testing"

	"github.com/parquet-go/parquet-go"
)

type SubD53 struct{ A int64 }
type SrcElD53 struct{ Sub SubD53 }
type SrcD53 struct{ L []SrcElD53 }
type DstElD53 struct {
	Sub SubD53
	B   *int64
}
type DstD53 struct{ L []DstElD53 }

// D53 (C12): an optional column added to a repeated group mirrors the levels of a
// source column of that group.  Only LEAVES sitting directly in the group were
// considered: when the group's other members are all sub-groups, the new column got
// one null per row instead of one per element and reading through the (compatible)
// target schema failed with "no values found in parquet row".
func TestD53OptionalColumnAddedToGroupWithoutLeafSibling(t *testing.T) {
	var src bytes.Buffer
	w := parquet.NewGenericWriter[SrcD53](&src)
	w.Write([]SrcD53{{L: []SrcElD53{{SubD53{1}}, {SubD53{2}}}}, {L: nil}, {L: []SrcElD53{{SubD53{3}}}}})
	if err := w.Close(); err != nil {
		t.Fatal(err)
	}
	got, err := parquet.Read[DstD53](bytes.NewReader(src.Bytes()), int64(src.Len()))
	if err != nil {
		t.Fatalf("reading through a schema that adds an optional column: %v", err)
	}
	if len(got) != 3 || len(got[0].L) != 2 || got[0].L[1].Sub.A != 2 || got[0].L[0].B != nil || len(got[1].L) != 0 || len(got[2].L) != 1 || got[2].L[0].Sub.A != 3 {
		t.Errorf("read %+v", got)
	}
}
