package scratch

import (
	"bytes"
	"testing"

	"github.com/parquet-go/parquet-go"
	"github.com/parquet-go/parquet-go/compress/snappy"
	"github.com/parquet-go/parquet-go/format"
)

type RD22 struct {
	A int64  `parquet:"a"`
	S string `parquet:"s,dict"`
}

type keysD22 struct{}

func (keysD22) FooterKey([]byte) ([]byte, error)           { return []byte("0123456789abcdef"), nil }
func (keysD22) ColumnKey([]string, []byte) ([]byte, error) { return []byte("0123456789abcdef"), nil }

// D22 (C18, C02): plaintext-footer encryption with more than one row group.  After
// a row group is stored, the live column writer's chunk metadata is blanked
// (MetaData = ColumnMetaData{}), including the fields that are set once at
// construction (type, codec, path, encodings): every later row group records
// type BOOLEAN, codec UNCOMPRESSED and an empty path - in the encrypted column
// metadata too - and a compressed file cannot be read back.
func TestD22PlaintextFooterSecondRowGroupMetadata(t *testing.T) {
	for _, encFooter := range []bool{false, true} {
		cfg := &parquet.EncryptionConfig{FooterKey: []byte("0123456789abcdef"), EncryptedFooter: encFooter}
		var buf bytes.Buffer
		w := parquet.NewGenericWriter[RD22](&buf, parquet.WithEncryption(cfg), parquet.Compression(&snappy.Codec{}))
		for g := 0; g < 3; g++ {
			rows := make([]RD22, 200)
			for i := range rows {
				rows[i] = RD22{int64(g*1000 + i), "value-value-value-value"}
			}
			w.Write(rows)
			w.Flush()
		}
		if err := w.Close(); err != nil {
			t.Fatal(err)
		}
		f, err := parquet.OpenFile(bytes.NewReader(buf.Bytes()), int64(buf.Len()), parquet.WithDecryption(keysD22{}))
		if err != nil {
			t.Fatalf("encryptedFooter=%v: open: %v", encFooter, err)
		}
		for gi, rg := range f.Metadata().RowGroups {
			for ci, c := range rg.Columns {
				wantType := []format.Type{format.Int64, format.ByteArray}[ci]
				if c.MetaData.Type != wantType || c.MetaData.Codec != format.Snappy || len(c.MetaData.PathInSchema) != 1 {
					t.Errorf("encryptedFooter=%v row group %d column %d: type=%v codec=%v path=%v", encFooter, gi, ci, c.MetaData.Type, c.MetaData.Codec, c.MetaData.PathInSchema)
				}
			}
		}
		r := parquet.NewGenericReader[RD22](f)
		out := make([]RD22, 700)
		n, err := r.Read(out)
		if n != 600 {
			t.Errorf("encryptedFooter=%v: read %d rows, want 600: %v", encFooter, n, err)
		}
	}
}
