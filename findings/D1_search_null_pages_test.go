package scratch

import (
	"bytes"
	"testing"

	"github.com/parquet-go/parquet-go"
)

type O struct {
	V *int32 `parquet:"v,optional"`
}

// D1 (C06): null pages precede ordered pages in an index flagged ascending.
func TestD1SearchNullPages(t *testing.T) {
	var buf bytes.Buffer
	p := func(i int32) *int32 { return &i }
	w := parquet.NewGenericWriter[O](&buf, parquet.PageBufferSize(1))
	for i := 0; i < 4; i++ {
		w.Write([]O{{nil}})
	}
	for i := int32(0); i < 8; i++ {
		w.Write([]O{{p(5 + i)}})
	}
	if err := w.Close(); err != nil {
		t.Fatal(err)
	}
	f, err := parquet.OpenFile(bytes.NewReader(buf.Bytes()), int64(buf.Len()))
	if err != nil {
		t.Fatal(err)
	}
	cc := f.RowGroups()[0].ColumnChunks()[0]
	ci, err := cc.ColumnIndex()
	if err != nil {
		t.Fatal(err)
	}
	t.Logf("pages=%d asc=%v", ci.NumPages(), ci.IsAscending())
	for _, v := range []int32{5, 8, 12} {
		r := parquet.Search(ci, parquet.Int32Value(v), cc.Type())
		if r >= ci.NumPages() {
			t.Errorf("search %d -> %d (NumPages): value is present in page %d", v, r, 4+int(v-5))
		}
	}
}
