package scratch

import (
	"bytes"
	"encoding/binary"
	"testing"

	"github.com/parquet-go/parquet-go"
)

type RD55 struct {
	ID   int64  `parquet:"id"`
	Name string `parquet:"name"`
}

type keysD55 struct{ key []byte }

func (k *keysD55) FooterKey([]byte) ([]byte, error)           { return k.key, nil }
func (k *keysD55) ColumnKey([]string, []byte) ([]byte, error) { return k.key, nil }

// D55 (C18): in plaintext-footer mode the footer of an encrypted file is followed by a
// 28-byte AES-GCM signature.  A footer with NO trailing bytes was taken for the footer
// of an unencrypted file even when it declares an encryption algorithm, so removing
// the signature (and fixing the length field) made any change to the footer go
// unnoticed: OpenFile succeeded on the altered file.
func TestD55StrippedFooterSignature(t *testing.T) {
	keys := &keysD55{key: bytes.Repeat([]byte{9}, 16)}
	var out bytes.Buffer
	w := parquet.NewGenericWriter[RD55](&out,
		parquet.WithEncryption(&parquet.EncryptionConfig{FooterKey: keys.key, EncryptedFooter: false}),
		parquet.KeyValueMetadata("owner", "alice"))
	w.Write([]RD55{{1, "one"}, {2, "two"}})
	if err := w.Close(); err != nil {
		t.Fatal(err)
	}
	data := out.Bytes()
	if _, err := parquet.OpenFile(bytes.NewReader(data), int64(len(data)), parquet.WithDecryption(keys)); err != nil {
		t.Fatalf("untouched file: %v", err)
	}
	// layout: ... footer | signature(28) | footer length(4) | "PAR1"
	n := len(data)
	footerLen := int(binary.LittleEndian.Uint32(data[n-8:]))
	footer := append([]byte(nil), data[n-8-footerLen:n-8-28]...)
	i := bytes.Index(footer, []byte("alice"))
	if i < 0 {
		t.Fatal("metadata value not found in the plaintext footer")
	}
	copy(footer[i:], "malor")
	forged := append([]byte(nil), data[:n-8-footerLen]...)
	forged = append(forged, footer...)
	forged = binary.LittleEndian.AppendUint32(forged, uint32(len(footer)))
	forged = append(forged, "PAR1"...)
	f, err := parquet.OpenFile(bytes.NewReader(forged), int64(len(forged)), parquet.WithDecryption(keys),
		parquet.SkipPageIndex(true), parquet.SkipBloomFilters(true))
	if err == nil {
		v, _ := f.Lookup("owner")
		t.Errorf("a footer stripped of its signature and altered was accepted (owner=%q)", v)
	}
}
