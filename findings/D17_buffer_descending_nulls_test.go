package scratch

import (
	"io"
	"sort"
	"testing"

	"github.com/parquet-go/parquet-go"
)

type RD17 struct {
	K *int64 `parquet:"k,optional"`
	P int64  `parquet:"p"`
}

// D17 (C10): sort.Sort on a Buffer with a DESCENDING nullable sorting column
// places nulls at the opposite end of what is declared (and of what
// Schema.Comparator orders): the wrapper that reverses the column's order also
// reverses the placement of nulls.
func TestD17BufferDescendingNulls(t *testing.T) {
	p := func(i int64) *int64 { return &i }
	for _, sc := range []parquet.SortingColumn{
		parquet.Descending("k"), parquet.Ascending("k"),
		parquet.NullsFirst(parquet.Descending("k")), parquet.NullsFirst(parquet.Ascending("k")),
	} {
		b := parquet.NewGenericBuffer[RD17](parquet.SortingRowGroupConfig(parquet.SortingColumns(sc)))
		b.Write([]RD17{{p(3), 0}, {nil, 1}, {p(1), 2}, {p(2), 3}, {nil, 4}, {p(5), 5}})
		sort.Sort(b)
		rr := b.Rows()
		rows := make([]parquet.Row, 10)
		n, err := rr.ReadRows(rows)
		if err != nil && err != io.EOF {
			t.Fatal(err)
		}
		cmp := b.Schema().Comparator(sc)
		var ks []parquet.Value
		for i := 0; i < n; i++ {
			ks = append(ks, rows[i][0])
		}
		for i := 1; i < n; i++ {
			if cmp(rows[i-1], rows[i]) > 0 {
				t.Errorf("descending=%v nullsFirst=%v: sorted buffer %v is not ordered by Schema.Comparator at row %d", sc.Descending(), sc.NullsFirst(), ks, i)
				break
			}
		}
		if n == 6 && ks[0].IsNull() != sc.NullsFirst() {
			t.Errorf("descending=%v nullsFirst=%v: first key of the sorted buffer is %v", sc.Descending(), sc.NullsFirst(), ks[0])
		}
		rr.Close()
	}
}
