package scratch

import (
	"bytes"
	"fmt"
	"testing"

	"github.com/parquet-go/parquet-go"
)

type RD54 struct {
	ID   int64  `parquet:"id"`
	Name string `parquet:"name"`
}

// D54 (C11): whether a column chunk may be copied verbatim was decided without looking
// at the destination's statistics settings, although the chunk statistics and the page
// index come along with the bytes: with SkipPageBounds("id") the copied chunk kept the
// source's min/max where the row path writes none, and with DeprecatedDataPageStatistics
// the copy left the deprecated min/max empty where the row path fills them.
func TestD54CopyPathIgnoresStatisticsSettings(t *testing.T) {
	rows := make([]RD54, 2000)
	for i := range rows {
		rows[i] = RD54{ID: int64(i), Name: fmt.Sprintf("name-%05d", i)}
	}
	var src bytes.Buffer
	w := parquet.NewGenericWriter[RD54](&src)
	w.Write(rows)
	if err := w.Close(); err != nil {
		t.Fatal(err)
	}
	f, err := parquet.OpenFile(bytes.NewReader(src.Bytes()), int64(src.Len()))
	if err != nil {
		t.Fatal(err)
	}
	for name, opts := range map[string][]parquet.WriterOption{
		"SkipPageBounds(id)":           {parquet.SkipPageBounds("id")},
		"DeprecatedDataPageStatistics": {parquet.DeprecatedDataPageStatistics(true)},
	} {
		var viaGroup, viaRows bytes.Buffer
		wg := parquet.NewGenericWriter[RD54](&viaGroup, opts...)
		if _, err := wg.WriteRowGroup(f.RowGroups()[0]); err != nil {
			t.Fatal(err)
		}
		if err := wg.Close(); err != nil {
			t.Fatal(err)
		}
		wr := parquet.NewGenericWriter[RD54](&viaRows, opts...)
		wr.Write(rows)
		if err := wr.Close(); err != nil {
			t.Fatal(err)
		}
		a, _ := parquet.OpenFile(bytes.NewReader(viaGroup.Bytes()), int64(viaGroup.Len()))
		b, _ := parquet.OpenFile(bytes.NewReader(viaRows.Bytes()), int64(viaRows.Len()))
		sa := a.Metadata().RowGroups[0].Columns[0].MetaData.Statistics
		sb := b.Metadata().RowGroups[0].Columns[0].MetaData.Statistics
		if (len(sa.MinValue) > 0) != (len(sb.MinValue) > 0) || (len(sa.Min) > 0) != (len(sb.Min) > 0) {
			t.Errorf("%s: column id statistics via WriteRowGroup {min_value:%x min:%x}, row by row {min_value:%x min:%x}", name, sa.MinValue, sa.Min, sb.MinValue, sb.Min)
		}
	}
}
