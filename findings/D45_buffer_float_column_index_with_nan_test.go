package scratch

import (
	"math"
	"testing"

	"github.com/parquet-go/parquet-go"
)

type RD45 struct {
	K float64 `parquet:"k"`
}

// D45 (C05, C09): the column index of an in-memory float/double column buffer took
// its bounds from the raw min/max kernels instead of the NaN-excluding page bounds,
// so with NaN among the values it excluded values the buffer holds (or was NaN in
// the portable build).  Merging sorted buffers reads key ranges off that index.
func TestD45BufferFloatColumnIndexWithNaN(t *testing.T) {
	nan := math.NaN()
	buf := parquet.NewGenericBuffer[RD45]()
	vals := []float64{0.5, nan, 3}
	for _, v := range vals {
		buf.Write([]RD45{{v}})
	}
	index, err := buf.ColumnChunks()[0].ColumnIndex()
	if err != nil {
		t.Fatal(err)
	}
	if mn, mx := index.MinValue(0).Double(), index.MaxValue(0).Double(); mn != 0.5 || mx != 3 {
		t.Errorf("buffer holding %v: column index bounds [%v, %v], want [0.5, 3]", vals, mn, mx)
	}
}
