package scratch
// D82b (C17): failed in the default build before the fix commit; see known_findings.json.

// PRE-EXISTING (unchanged tree), same root cause as preexisting_1 seen through
// the public writer API: a dictionary-encoded column whose indexes contain a
// non-uniform group of 8 starting with 4 equal values yields a different file
// in the default amd64 build than with -tags purego.
//
// Place in the repository root and run:
//   go test -vet=off -count=1 -timeout 600s -run TestD82bDictionaryPageBuilds .              -> FAIL (AVX2 CPU)
//   go test -vet=off -count=1 -timeout 600s -tags purego -run TestD82bDictionaryPageBuilds . -> PASS

import (
	"bytes"
	"crypto/sha256"
	"encoding/hex"
	"testing"

	"github.com/parquet-go/parquet-go"
)

func TestD82bDictionaryPageBuilds(t *testing.T) {
	type Row struct {
		S string `parquet:"s,dict"`
	}
	names := []string{"a", "b", "c", "d"}
	rows := []Row{}
	for _, i := range []int{0, 0, 1, 0, 1, 0, 2, 2, 3, 3, 3, 3, 1, 1, 1, 1} {
		rows = append(rows, Row{S: names[i]})
	}
	buf := new(bytes.Buffer)
	w := parquet.NewGenericWriter[Row](buf, parquet.CreatedBy("test", "1", "0"))
	if _, err := w.Write(rows); err != nil {
		t.Fatal(err)
	}
	if err := w.Close(); err != nil {
		t.Fatal(err)
	}
	sum := sha256.Sum256(buf.Bytes())
	const golden = "90f990a5e54769cc676b16f2a96c89ef4f7e2791fa57d707e67444424b238424" // sha256 of the file written by the portable (purego) build
	if got := hex.EncodeToString(sum[:]); got != golden {
		t.Errorf("file is %d bytes with sha256 %s; the portable build writes sha256 %s", buf.Len(), got, golden)
	}
}
