package scratch

// D95b (C01/C03): failed before the fix commit; see known_findings.json.

import (
	"bytes"
	"testing"
	"time"

	"github.com/parquet-go/parquet-go"
)

func TestD95bDurationBothPaths(t *testing.T) {
	type row struct {
		Ms time.Duration  `parquet:"ms,time(millisecond)"`
		Us *time.Duration `parquet:"us,optional,time(microsecond)"`
	}
	us := 5 * time.Minute
	rows := []row{{Ms: 3 * time.Hour, Us: &us}, {Ms: -time.Millisecond}}
	buf := new(bytes.Buffer)
	w := parquet.NewWriter(buf, parquet.SchemaOf(row{}))
	for i := range rows {
		if err := w.Write(&rows[i]); err != nil {
			t.Fatal(err)
		}
	}
	if err := w.Close(); err != nil {
		t.Fatal(err)
	}
	got, err := parquet.Read[row](bytes.NewReader(buf.Bytes()), int64(buf.Len()))
	if err != nil {
		t.Fatal(err)
	}
	if got[0].Ms != rows[0].Ms || got[0].Us == nil || *got[0].Us != us || got[1].Ms != rows[1].Ms || got[1].Us != nil {
		t.Errorf("got %+v", got)
	}
	gb := new(bytes.Buffer)
	gw := parquet.NewGenericWriter[row](gb)
	gw.Write(rows)
	gw.Close()
	got2, err := parquet.Read[row](bytes.NewReader(gb.Bytes()), int64(gb.Len()))
	if err != nil || got2[0].Ms != rows[0].Ms || got2[0].Us == nil || *got2[0].Us != us || got2[1].Us != nil {
		t.Errorf("typed: got %+v %v", got2, err)
	}
}
