package scratch

import (
	"bytes"
	"testing"

	"github.com/parquet-go/parquet-go"
)

type RB struct {
	B bool `parquet:"b"`
}

// D3 (C07): boolean column with a bloom filter: written values are reported absent.
func TestD3BloomBoolean(t *testing.T) {
	for _, rows := range [][]RB{{{true}, {true}, {true}}, {{false}, {true}, {false}, {true}, {true}}, {{false}, {false}}} {
		var buf bytes.Buffer
		w := parquet.NewGenericWriter[RB](&buf, parquet.BloomFilters(parquet.SplitBlockFilter(10, "b")))
		w.Write(rows)
		if err := w.Close(); err != nil {
			t.Fatal(err)
		}
		f, err := parquet.OpenFile(bytes.NewReader(buf.Bytes()), int64(buf.Len()))
		if err != nil {
			t.Fatal(err)
		}
		bf := f.RowGroups()[0].ColumnChunks()[0].BloomFilter()
		if bf == nil {
			t.Fatal("no filter")
		}
		for _, r := range rows {
			ok, err := bf.Check(parquet.BooleanValue(r.B))
			if err != nil || !ok {
				t.Errorf("rows %v: Check(%v) = %v, %v for a written value", rows, r.B, ok, err)
			}
		}
	}
}
