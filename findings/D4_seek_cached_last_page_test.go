package scratch

import (
	"bytes"
	"testing"

	"github.com/parquet-go/parquet-go"
)

type I64 struct {
	V int64 `parquet:"v"`
}

func d4File(t *testing.T) *parquet.File {
	var buf bytes.Buffer
	w := parquet.NewGenericWriter[I64](&buf, parquet.PageBufferSize(256), parquet.Compression(&parquet.Uncompressed))
	rows := make([]I64, 1000)
	for i := range rows {
		rows[i].V = int64(i)
	}
	w.Write(rows)
	if err := w.Close(); err != nil {
		t.Fatal(err)
	}
	f, err := parquet.OpenFile(bytes.NewReader(buf.Bytes()), int64(buf.Len()))
	if err != nil {
		t.Fatal(err)
	}
	return f
}

func firstValue(t *testing.T, p parquet.Page) int64 {
	vals := make([]parquet.Value, 1)
	n, _ := p.Values().ReadValues(vals)
	if n == 0 {
		t.Fatal("empty page")
	}
	return vals[0].Int64()
}

// D4 (C08): read page 0, read page 1, seek to page 0, seek to page 1, read (cached page 1), read again.
func TestD4SeekServesCachedPageWithStreamElsewhere(t *testing.T) {
	f := d4File(t)
	cc := f.RowGroups()[0].ColumnChunks()[0]
	oi, _ := cc.OffsetIndex()
	if oi.NumPages() < 4 {
		t.Skip("need several pages")
	}
	pages := cc.Pages()
	defer pages.Close()
	p0, _ := pages.ReadPage()
	p1, _ := pages.ReadPage()
	_, _ = p0, p1
	if err := pages.SeekToRow(oi.FirstRowIndex(0)); err != nil {
		t.Fatal(err)
	}
	if err := pages.SeekToRow(oi.FirstRowIndex(1)); err != nil {
		t.Fatal(err)
	}
	q1, err := pages.ReadPage()
	if err != nil {
		t.Fatal(err)
	}
	if got := firstValue(t, q1); got != oi.FirstRowIndex(1) {
		t.Errorf("after seek to page 1: first value %d, want %d", got, oi.FirstRowIndex(1))
	}
	q2, err := pages.ReadPage()
	if err != nil {
		t.Fatal(err)
	}
	if got := firstValue(t, q2); got != oi.FirstRowIndex(2) {
		t.Errorf("page after the served cached page: first value %d, want %d (page 2)", got, oi.FirstRowIndex(2))
	}
}

// D4b (C08): read pages 0,1; seek into page 1 (cached, to be served); then seek into page 2 without reading.
func TestD4bStaleServeLastPage(t *testing.T) {
	f := d4File(t)
	cc := f.RowGroups()[0].ColumnChunks()[0]
	oi, _ := cc.OffsetIndex()
	if oi.NumPages() < 4 {
		t.Skip("need several pages")
	}
	pages := cc.Pages()
	defer pages.Close()
	pages.ReadPage()
	pages.ReadPage()
	if err := pages.SeekToRow(oi.FirstRowIndex(1) + 1); err != nil {
		t.Fatal(err)
	}
	want := oi.FirstRowIndex(2) + 3
	if err := pages.SeekToRow(want); err != nil {
		t.Fatal(err)
	}
	q, err := pages.ReadPage()
	if err != nil {
		t.Fatal(err)
	}
	if got := firstValue(t, q); got != want {
		t.Errorf("after SeekToRow(%d): first value read is %d", want, got)
	}
}
