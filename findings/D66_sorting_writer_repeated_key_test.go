package scratch

import (
	"bytes"
	"testing"

	"github.com/parquet-go/parquet-go"
)

// D66 (C10), failed before the fix commit: SortingWriter sorted by a
// repeated column followed by another sorting column writes rows out of order
// when a sort-run boundary separates a list from a longer list it is a prefix
// of.
//
// On Close the sort runs are merged by MergeRowGroups, which first derives a
// [minRow, maxRow] key range per run from the page statistics
// (rowGroupRangeOfSortedColumns) to find runs that do not overlap and can be
// concatenated. For a repeated sorting column the statistics yield a single
// value, so the run holding the row (e=["0","0"], a=1) gets the upper bound
// (e=["0"], a=1): that is NOT an upper bound of the row, since ["0","0"] sorts
// after ["0"]. The run holding (e=["0"], a=2) then looks entirely above it
// (same e, larger a) and the two runs are concatenated instead of merged.
func TestD66SortingWriterRepeatedKeyThenSecondKey(t *testing.T) {
	type Row struct {
		E []string `parquet:"e"`
		A int64    `parquet:"a"`
	}

	rows := []Row{
		{E: []string{"0", "0"}, A: 1},
		{E: []string{"0"}, A: 2},
	}
	sorting := []parquet.SortingColumn{parquet.Ascending("e"), parquet.Ascending("a")}

	buffer := bytes.NewBuffer(nil)
	// One row per sort run.
	writer := parquet.NewSortingWriter[Row](buffer, 1,
		parquet.SortingWriterConfig(parquet.SortingColumns(sorting...)),
	)
	if _, err := writer.Write(rows); err != nil {
		t.Fatal(err)
	}
	if err := writer.Close(); err != nil {
		t.Fatal(err)
	}

	f, err := parquet.OpenFile(bytes.NewReader(buffer.Bytes()), int64(buffer.Len()))
	if err != nil {
		t.Fatal(err)
	}
	compare := f.Schema().Comparator(sorting...)

	var out []parquet.Row
	for _, rowGroup := range f.RowGroups() {
		r := rowGroup.Rows()
		buf := make([]parquet.Row, 10)
		for {
			n, err := r.ReadRows(buf)
			for _, row := range buf[:n] {
				out = append(out, row.Clone())
			}
			if err != nil {
				break
			}
		}
		r.Close()
	}

	if len(out) != len(rows) {
		t.Fatalf("file holds %d rows, want %d", len(out), len(rows))
	}
	for i := 1; i < len(out); i++ {
		if compare(out[i-1], out[i]) > 0 {
			t.Errorf("rows %d and %d of the file are out of order for %v:\n  %+v\n  %+v", i-1, i, sorting, out[i-1], out[i])
		}
	}
}
