// dir: .
// D76 (C06/C05): failed before the fix commit (a regression of the D67 repair); see known_findings.json.
package parquet

import (
	"bytes"
	"io"
	"testing"
)

// PRE-EXISTING (fails on the unchanged tree): the verbatim copy path of
// Writer.WriteRowGroup cuts the column index bounds of every BYTE_ARRAY and
// FIXED_LEN_BYTE_ARRAY column down to the destination ColumnIndexSizeLimit
// (16 by default) with the prefix / prefix-successor rule. For binary DECIMAL
// columns the bounds are big-endian two's-complement numbers compared by the
// signed decimal order, for which a prefix is not a lower bound and the
// successor of a prefix is not an upper bound (the decimal indexer of the row
// path never truncates for that reason). After a copy with default settings on
// both sides, the max bound of a FIXED_LEN_BYTE_ARRAY(20) decimal page becomes
// a 16-byte number smaller than the values of the page, and Search skips pages
// which contain the probed value.
func TestD76DecimalBoundsTruncatedByCopy(t *testing.T) {
	schema := NewSchema("t", Group{
		"d": Decimal(0, 40, FixedLenByteArrayType(20)),
	})

	const numRows = 300
	makeValue := func(i int) Value {
		b := make([]byte, 20)
		v := uint32(1000 + i)
		b[16], b[17], b[18], b[19] = byte(v>>24), byte(v>>16), byte(v>>8), byte(v)
		return FixedLenByteArrayValue(b)
	}

	var srcBuf bytes.Buffer
	sw := NewWriter(&srcBuf, schema, PageBufferSize(512))
	for i := range numRows {
		if _, err := sw.WriteRows([]Row{{makeValue(i).Level(0, 0, 0)}}); err != nil {
			t.Fatal(err)
		}
	}
	if err := sw.Close(); err != nil {
		t.Fatal(err)
	}
	src, err := OpenFile(bytes.NewReader(srcBuf.Bytes()), int64(srcBuf.Len()))
	if err != nil {
		t.Fatal(err)
	}

	// Sanity: the property holds on the source file.
	c06pre1Check(t, "source", src)

	before := copyPathCounter.Load()
	var dstBuf bytes.Buffer
	dw := NewWriter(&dstBuf, schema, PageBufferSize(512))
	for _, rg := range src.RowGroups() {
		if _, err := dw.WriteRowGroup(rg); err != nil {
			t.Fatal(err)
		}
	}
	if err := dw.Close(); err != nil {
		t.Fatal(err)
	}
	if copyPathCounter.Load() == before {
		t.Skip("the verbatim copy path was not taken")
	}
	dst, err := OpenFile(bytes.NewReader(dstBuf.Bytes()), int64(dstBuf.Len()))
	if err != nil {
		t.Fatal(err)
	}
	c06pre1Check(t, "copy", dst)
}

func c06pre1Check(t *testing.T, name string, f *File) {
	t.Helper()
	failures := 0
	for _, rg := range f.RowGroups() {
		chunk := rg.ColumnChunks()[0]
		typ := chunk.Type()
		index, err := chunk.ColumnIndex()
		if err != nil {
			t.Fatal(err)
		}
		numPages := index.NumPages()
		pages := chunk.Pages()
		for p := 0; ; p++ {
			page, err := pages.ReadPage()
			if err == io.EOF {
				break
			}
			if err != nil {
				t.Fatal(err)
			}
			values := make([]Value, page.NumValues())
			n, err := page.Values().ReadValues(values)
			if err != nil && err != io.EOF {
				t.Fatal(err)
			}
			for _, v := range values[:n] {
				if v.IsNull() {
					continue
				}
				found := Search(index, v, typ)
				switch {
				case found > p:
					failures++
					if failures <= 5 {
						t.Errorf("%s: value %x is in page %d but Search returned %d (NumPages=%d, page bounds [%x,%x])",
							name, v.ByteArray(), p, found, numPages, index.MinValue(p).ByteArray(), index.MaxValue(p).ByteArray())
					}
				case found < numPages:
					min, max := index.MinValue(found), index.MaxValue(found)
					if typ.Compare(v, min) < 0 || typ.Compare(v, max) > 0 {
						failures++
						if failures <= 5 {
							t.Errorf("%s: value %x: Search returned page %d whose bounds [%x,%x] do not contain it",
								name, v.ByteArray(), found, min.ByteArray(), max.ByteArray())
						}
					}
				}
			}
			Release(page)
		}
		pages.Close()
	}
	if failures > 5 {
		t.Errorf("%s: %d violations in total", name, failures)
	}
}
