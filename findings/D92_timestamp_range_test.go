package scratch

// D92 (C01): failed before the fix commit; see known_findings.json.

// PRE-EXISTING (fails on the unchanged tree): a time.Time stored in a
// TIMESTAMP(MILLIS) or TIMESTAMP(MICROS) column does not read back as the same
// instant when it lies outside the range of int64 nanoseconds (before 1678 or
// after 2262) - which includes the zero time.Time of a REQUIRED field and the
// usual "9999-12-31" sentinel. The stored leaf (int64 millis) is right; the
// read side (timestampType.AssignValue) multiplies it into nanoseconds and
// overflows.
//
// Run from the repository root:
//   go test -vet=off -count=1 -timeout 600s -run TestPreexisting1 .

import (
	"bytes"
	"testing"
	"time"

	"github.com/parquet-go/parquet-go"
)

func TestD92TimestampRange(t *testing.T) {
	type row struct {
		Ms time.Time `parquet:"ms,timestamp(millisecond)"`
		Us time.Time `parquet:"us,timestamp(microsecond)"`
	}
	times := []time.Time{
		time.Date(2024, 3, 1, 0, 0, 0, 0, time.UTC), // control: round-trips
		time.Date(9999, 12, 31, 0, 0, 0, 0, time.UTC),
		time.Date(2500, 1, 1, 0, 0, 0, 0, time.UTC),
		time.Date(1500, 1, 1, 0, 0, 0, 0, time.UTC),
		{}, // zero time of a required field
	}
	rows := make([]row, len(times))
	for i, x := range times {
		rows[i] = row{Ms: x, Us: x}
	}

	buf := new(bytes.Buffer)
	w := parquet.NewGenericWriter[row](buf)
	if _, err := w.Write(rows); err != nil {
		t.Fatal(err)
	}
	if err := w.Close(); err != nil {
		t.Fatal(err)
	}
	got, err := parquet.Read[row](bytes.NewReader(buf.Bytes()), int64(buf.Len()))
	if err != nil {
		t.Fatal(err)
	}
	for i := range rows {
		if !got[i].Ms.Equal(rows[i].Ms) {
			t.Errorf("row %d millis: got %v want %v", i, got[i].Ms, rows[i].Ms)
		}
		if !got[i].Us.Equal(rows[i].Us) {
			t.Errorf("row %d micros: got %v want %v", i, got[i].Us, rows[i].Us)
		}
	}
}
