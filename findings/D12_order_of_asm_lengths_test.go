package parquet

// dir: .

import "testing"

// D12 (C17, C05): the AVX-512 orderOf* kernels (boundary order of the column
// index) loaded one element past the end of the input when its length is a
// multiple of both the vector width and the step (56, 112, ... for 64-bit values;
// 240, 480, ... for 32-bit values): strictly ascending input of that length was
// reported unordered, unlike the portable build.
func TestD12OrderOfLengths(t *testing.T) {
	for _, n := range []int{8, 15, 16, 55, 56, 57, 112, 239, 240, 241, 480} {
		i32, i64 := make([]int32, n), make([]int64, n)
		u32, u64 := make([]uint32, n), make([]uint64, n)
		f32, f64 := make([]float32, n), make([]float64, n)
		for i := 0; i < n; i++ {
			i32[i], i64[i], u32[i], u64[i], f32[i], f64[i] = int32(i), int64(i), uint32(i), uint64(i), float32(i), float64(i)
		}
		if got := orderOfInt32(i32); got != 1 {
			t.Errorf("orderOfInt32 of %d ascending values = %d", n, got)
		}
		if got := orderOfInt64(i64); got != 1 {
			t.Errorf("orderOfInt64 of %d ascending values = %d", n, got)
		}
		if got := orderOfUint32(u32); got != 1 {
			t.Errorf("orderOfUint32 of %d ascending values = %d", n, got)
		}
		if got := orderOfUint64(u64); got != 1 {
			t.Errorf("orderOfUint64 of %d ascending values = %d", n, got)
		}
		if got := orderOfFloat32(f32); got != 1 {
			t.Errorf("orderOfFloat32 of %d ascending values = %d", n, got)
		}
		if got := orderOfFloat64(f64); got != 1 {
			t.Errorf("orderOfFloat64 of %d ascending values = %d", n, got)
		}
		for i := 0; i < n; i++ {
			i32[i], i64[i], u32[i], u64[i], f32[i], f64[i] = int32(n-i), int64(n-i), uint32(n-i), uint64(n-i), float32(n-i), float64(n-i)
		}
		if orderOfInt32(i32) != -1 || orderOfInt64(i64) != -1 || orderOfUint32(u32) != -1 || orderOfUint64(u64) != -1 || orderOfFloat32(f32) != -1 || orderOfFloat64(f64) != -1 {
			t.Errorf("%d descending values: %d %d %d %d %d %d", n, orderOfInt32(i32), orderOfInt64(i64), orderOfUint32(u32), orderOfUint64(u64), orderOfFloat32(f32), orderOfFloat64(f64))
		}
	}
}
