package scratch

// D87 (C14): failed before the fix commit; see known_findings.json.

import (
	"bytes"
	"fmt"
	"io"
	"testing"

	"github.com/parquet-go/parquet-go"
)

// Pre-existing (unchanged tree): a short read of zero bytes (0, io.EOF) from the
// source io.ReaderAt on the read which lazily loads a dictionary page comes out
// of FilePages.ReadPage as a WRAPPED io.EOF ("decoding page 0 of column ...:
// EOF"). parquet.CopyRows tells the end of the rows with errors.Is(err, io.EOF),
// so it returns (0, nil): all the rows are missing and no error is reported.

type pre1Row struct {
	Name string `parquet:"name,dict"`
}

type pre1FaultyReaderAt struct {
	r     io.ReaderAt
	armed bool
	calls int
	fail  int
}

func (f *pre1FaultyReaderAt) ReadAt(b []byte, off int64) (int, error) {
	if f.armed {
		i := f.calls
		f.calls++
		if i == f.fail {
			return 0, io.EOF
		}
	}
	return f.r.ReadAt(b, off)
}

type pre1RowCounter struct{ rows int }

func (c *pre1RowCounter) WriteRows(rows []parquet.Row) (int, error) {
	c.rows += len(rows)
	return len(rows), nil
}

func TestD87LazyDictionaryShortRead(t *testing.T) {
	const numRows = 300

	want := make([]pre1Row, numRows)
	for i := range want {
		want[i].Name = fmt.Sprintf("name-%03d", i%17)
	}
	buf := new(bytes.Buffer)
	w := parquet.NewGenericWriter[pre1Row](buf)
	if _, err := w.Write(want); err != nil {
		t.Fatal(err)
	}
	if err := w.Close(); err != nil {
		t.Fatal(err)
	}
	data := buf.Bytes()

	copyAll := func(fail int) (copied int64, received int, calls int, err error) {
		src := &pre1FaultyReaderAt{r: bytes.NewReader(data), fail: fail}
		f, err := parquet.OpenFile(src, int64(len(data)), parquet.SkipPageIndex(true))
		if err != nil {
			t.Fatalf("OpenFile: %v", err)
		}
		src.armed = true
		rows := f.RowGroups()[0].Rows()
		defer rows.Close()
		dst := new(pre1RowCounter)
		n, err := parquet.CopyRows(dst, rows)
		return n, dst.rows, src.calls, err
	}

	n, received, numCalls, err := copyAll(-1)
	if err != nil || n != numRows || received != numRows {
		t.Fatalf("copy without faults: n=%d received=%d err=%v", n, received, err)
	}

	for fail := 0; fail < numCalls; fail++ {
		n, received, _, err := copyAll(fail)
		if err != nil {
			continue // reported
		}
		if n != numRows || received != numRows {
			t.Errorf("ReadAt call %d of %d answered (0, io.EOF): CopyRows returned n=%d (destination received %d of %d rows) and a nil error",
				fail, numCalls, n, received, numRows)
		}
	}
}
