package scratch

// D70 (C18): failed before the fix commit; see known_findings.json.
//
// Place in the repository root and run:
//
//	go test -vet=off -count=1 -timeout 600s -run TestC18Preexisting2 .
//
// Signed plaintext footer + a column encrypted with its own key + a reader that
// holds the footer key only (KeyRetriever.ColumnKey returns ErrKeyNotFound).
// decryptAllColumnMetadata skips the column, whose ColumnChunk.MetaData stays
// the blanked stub stored in the plaintext footer (NumValues=0, offsets 0,
// TotalCompressedSize=0).  Reading the column then does not fail: its page
// reader reports a clean io.EOF (an empty column, deterministic: subtest
// ColumnChunkPages).  A row read that follows an ordinary read in the same
// process (recycled row buffers) hands out rows without any error for an
// optional column (n=10, err=io.EOF, nil/stale values) and panics in
// Schema.Reconstruct for a required column, instead of returning an error; on
// fresh buffers it happens to fail with "no values found in parquet row".

import (
	"bytes"
	"errors"
	"fmt"
	"io"
	"testing"

	"github.com/parquet-go/parquet-go"
)

type c18Pre2Req struct {
	Name  string `parquet:"name"`
	Value int64  `parquet:"value"`
}

type c18Pre2Opt struct {
	Name  *string `parquet:"name,optional"`
	Value int64   `parquet:"value"`
}

type c18Pre2Keys struct{ footer, name []byte }

func (k c18Pre2Keys) FooterKey([]byte) ([]byte, error) { return k.footer, nil }
func (k c18Pre2Keys) ColumnKey(path []string, _ []byte) ([]byte, error) {
	if k.name != nil && len(path) == 1 && path[0] == "name" {
		return k.name, nil
	}
	return nil, fmt.Errorf("no key for %v: %w", path, parquet.ErrKeyNotFound)
}

func c18Pre2Config(footerKey, nameKey []byte) *parquet.EncryptionConfig {
	return &parquet.EncryptionConfig{
		FooterKey:       footerKey,
		ColumnKeys:      map[string][]byte{"name": nameKey},
		EncryptedFooter: false, // signed plaintext footer
	}
}

func c18Pre2ReadRows[T any](t *testing.T, data []byte, keys parquet.KeyRetriever) (n int, err error) {
	t.Helper()
	defer func() {
		if r := recover(); r != nil {
			err = nil
			n = -1
			t.Errorf("reading rows without the column key panicked instead of returning an error: %v", r)
		}
	}()
	f, err := parquet.OpenFile(bytes.NewReader(data), int64(len(data)), parquet.WithDecryption(keys))
	if err != nil {
		return 0, err // refusing at open would be fine
	}
	r := parquet.NewGenericReader[T](f)
	defer r.Close()
	buf := make([]T, 32)
	for {
		m, err := r.Read(buf)
		n += m
		if err != nil {
			return n, err
		}
	}
}

func TestD70MissingColumnKeyPlaintextFooter(t *testing.T) {
	footerKey := bytes.Repeat([]byte{0x21}, 16)
	nameKey := bytes.Repeat([]byte{0x22}, 16)
	keys := c18Pre2Keys{footer: footerKey}
	allKeys := c18Pre2Keys{footer: footerKey, name: nameKey}

	t.Run("RequiredColumnRows", func(t *testing.T) {
		var buf bytes.Buffer
		w := parquet.NewGenericWriter[c18Pre2Req](&buf, parquet.WithEncryption(c18Pre2Config(footerKey, nameKey)))
		rows := make([]c18Pre2Req, 10)
		for i := range rows {
			rows[i] = c18Pre2Req{Name: fmt.Sprintf("SECRETNAME-%06d", i), Value: int64(i)}
		}
		if _, err := w.Write(rows); err != nil {
			t.Fatal(err)
		}
		if err := w.Close(); err != nil {
			t.Fatal(err)
		}
		// A reader holding every key gets all the rows back.
		if n, err := c18Pre2ReadRows[c18Pre2Req](t, buf.Bytes(), allKeys); n != len(rows) || !errors.Is(err, io.EOF) {
			t.Fatalf("reading with every key: n=%d err=%v", n, err)
		}
		n, err := c18Pre2ReadRows[c18Pre2Req](t, buf.Bytes(), keys)
		t.Logf("without the column key: n=%d err=%v", n, err)
		if n >= 0 && (err == nil || errors.Is(err, io.EOF)) {
			t.Errorf("reading rows without the key of column \"name\" returned n=%d err=%v; want an error", n, err)
		}
	})

	t.Run("OptionalColumnRows", func(t *testing.T) {
		var buf bytes.Buffer
		w := parquet.NewGenericWriter[c18Pre2Opt](&buf, parquet.WithEncryption(c18Pre2Config(footerKey, nameKey)))
		rows := make([]c18Pre2Opt, 10)
		for i := range rows {
			s := fmt.Sprintf("SECRETNAME-%06d", i)
			rows[i] = c18Pre2Opt{Name: &s, Value: int64(i)}
		}
		if _, err := w.Write(rows); err != nil {
			t.Fatal(err)
		}
		if err := w.Close(); err != nil {
			t.Fatal(err)
		}
		// A reader holding every key gets all the rows back.
		if n, err := c18Pre2ReadRows[c18Pre2Opt](t, buf.Bytes(), allKeys); n != len(rows) || !errors.Is(err, io.EOF) {
			t.Fatalf("reading with every key: n=%d err=%v", n, err)
		}
		n, err := c18Pre2ReadRows[c18Pre2Opt](t, buf.Bytes(), keys)
		t.Logf("without the column key: n=%d err=%v", n, err)
		if n >= 0 && (err == nil || errors.Is(err, io.EOF)) {
			t.Errorf("reading rows without the key of column \"name\" returned n=%d rows and err=%v; want an error", n, err)
		}
	})

	t.Run("ColumnChunkPages", func(t *testing.T) {
		var buf bytes.Buffer
		w := parquet.NewGenericWriter[c18Pre2Req](&buf, parquet.WithEncryption(c18Pre2Config(footerKey, nameKey)))
		rows := make([]c18Pre2Req, 10)
		for i := range rows {
			rows[i] = c18Pre2Req{Name: fmt.Sprintf("SECRETNAME-%06d", i), Value: int64(i)}
		}
		if _, err := w.Write(rows); err != nil {
			t.Fatal(err)
		}
		if err := w.Close(); err != nil {
			t.Fatal(err)
		}
		data := buf.Bytes()
		f, err := parquet.OpenFile(bytes.NewReader(data), int64(len(data)), parquet.WithDecryption(keys))
		if err != nil {
			return // refusing at open would be fine
		}
		pages := f.RowGroups()[0].ColumnChunks()[0].Pages()
		defer pages.Close()
		_, err = pages.ReadPage()
		if err == nil || errors.Is(err, io.EOF) {
			t.Errorf("ReadPage on a column whose key is missing returned err=%v (the 10-value column looks empty); want an error", err)
		}
	})
}
