package scratch

import (
	"bytes"
	"testing"

	"github.com/parquet-go/parquet-go"
)

type RD29 struct {
	ID int64 `parquet:"id,plain"`
}

// D29 (C13, C08): when ReadPage fails inside a page (checksum mismatch) the bytes
// of that page are consumed but the reader still believes it stands at its start.
// A following SeekToRow into the same page took the "already positioned" shortcut
// and the next ReadPage returned the rows of the FOLLOWING page as if they were
// the rows sought, without any error.
func TestD29SeekAfterChecksumError(t *testing.T) {
	var out bytes.Buffer
	w := parquet.NewGenericWriter[RD29](&out, parquet.PageBufferSize(800), parquet.DataPageStatistics(true))
	rows := make([]RD29, 1000)
	for i := range rows {
		rows[i].ID = int64(i)
	}
	if _, err := w.Write(rows); err != nil {
		t.Fatal(err)
	}
	if err := w.Close(); err != nil {
		t.Fatal(err)
	}
	data := append([]byte(nil), out.Bytes()...)
	f, err := parquet.OpenFile(bytes.NewReader(data), int64(len(data)))
	if err != nil {
		t.Fatal(err)
	}
	chunk := f.RowGroups()[0].ColumnChunks()[0]
	oi, err := chunk.OffsetIndex()
	if err != nil || oi.NumPages() < 4 {
		t.Fatalf("offset index: %v pages, err=%v", oi, err)
	}
	// flip one bit in the last byte of page 1 (inside its values)
	target := 1
	first, next := oi.FirstRowIndex(target), oi.FirstRowIndex(target+1)
	data[oi.Offset(target)+oi.CompressedPageSize(target)-1] ^= 0x40
	f, err = parquet.OpenFile(bytes.NewReader(data), int64(len(data)))
	if err != nil {
		t.Fatal(err)
	}
	pages := f.RowGroups()[0].ColumnChunks()[0].Pages()
	defer pages.Close()
	if err := pages.SeekToRow(first + 2); err != nil {
		t.Fatal(err)
	}
	if p, err := pages.ReadPage(); err == nil {
		t.Fatalf("corrupted page read without error: %d rows", p.NumRows())
	}
	// try again: same page
	if err := pages.SeekToRow(first + 2); err != nil {
		t.Fatal(err)
	}
	p, err := pages.ReadPage()
	if err != nil {
		return // reported again: fine
	}
	vals := make([]parquet.Value, 1)
	p.Values().ReadValues(vals)
	if got := vals[0].Int64(); got != first+2 {
		t.Errorf("SeekToRow(%d) after a checksum error returned a page starting at id %d without error (page %d starts at %d, the next at %d)", first+2, got, target, first, next)
	}
}
