package scratch

import (
	"bytes"
	"testing"

	"github.com/parquet-go/parquet-go"
)

type RD48 struct {
	P []*int64 `parquet:"p"`
}

// D48 (C01, C03): a field `[]*int64` without the list tag is a repeated int64 column.
// The typed writer accepts it, but reading it back panicked (reflect.Set: value of
// type int64 is not assignable to type *int64) and the reflection write path
// panicked too (cannot create parquet value of type INT64 from go value of type
// *int64): rows the writer accepted could not be read.
func TestD48RepeatedPointerElements(t *testing.T) {
	defer func() {
		if p := recover(); p != nil {
			t.Errorf("panic: %v", p)
		}
	}()
	one, three := int64(1), int64(3)
	rows := []RD48{{P: []*int64{&one, nil, &three}}, {}}
	var typed, refl bytes.Buffer
	tw := parquet.NewGenericWriter[RD48](&typed)
	tw.Write(rows)
	if err := tw.Close(); err != nil {
		t.Fatal(err)
	}
	rw := parquet.NewWriter(&refl, parquet.SchemaOf(RD48{}))
	for i := range rows {
		if err := rw.Write(&rows[i]); err != nil {
			t.Fatal(err)
		}
	}
	if err := rw.Close(); err != nil {
		t.Fatal(err)
	}
	for name, data := range map[string][]byte{"typed": typed.Bytes(), "reflection": refl.Bytes()} {
		got, err := parquet.Read[RD48](bytes.NewReader(data), int64(len(data)))
		if err != nil {
			t.Fatal(err)
		}
		if len(got) != 2 || len(got[0].P) != 3 || len(got[1].P) != 0 {
			t.Fatalf("%s: read %+v", name, got)
		}
		for i, want := range []int64{1, 0, 3} { // nil has no level of its own: it is the zero value
			if got[0].P[i] == nil || *got[0].P[i] != want {
				t.Errorf("%s: element %d = %v, want %d", name, i, got[0].P[i], want)
			}
		}
	}
}
