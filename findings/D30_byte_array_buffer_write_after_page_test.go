package scratch

import (
	"io"
	"sort"
	"testing"

	"github.com/parquet-go/parquet-go"
)

type RD30 struct {
	Name string `parquet:"name"`
	ID   int64  `parquet:"id"`
}

// D30 (C10, C01): producing a page from a byte-array column buffer (reading its
// rows, asking for its column or offset index) leaves an end-of-values sentinel in
// the offsets.  Every write path appended after that sentinel, so offsets and
// lengths of the values written afterwards no longer lined up: sorting, or simply
// reading, returned strings cut from the wrong place.
func TestD30ByteArrayBufferWriteAfterPage(t *testing.T) {
	buf := parquet.NewGenericBuffer[RD30](parquet.SortingRowGroupConfig(parquet.SortingColumns(parquet.Ascending("name"))))
	buf.Write([]RD30{{"pear", 1}, {"fig", 2}, {"banana", 3}})
	sort.Sort(buf)
	readAll := func() (out []RD30) {
		r := parquet.NewGenericRowGroupReader[RD30](buf)
		defer r.Close()
		tmp := make([]RD30, 16)
		for {
			n, err := r.Read(tmp)
			out = append(out, tmp[:n]...)
			if err != nil {
				if err != io.EOF {
					t.Fatal(err)
				}
				return out
			}
		}
	}
	if got := readAll(); len(got) != 3 || got[0].Name != "banana" {
		t.Fatalf("first read: %v", got)
	}
	// keep filling the same buffer, then sort and read again
	buf.Write([]RD30{{"apple", 4}, {"cherry", 5}, {"date", 6}})
	sort.Sort(buf)
	got := readAll()
	want := []RD30{{"apple", 4}, {"banana", 3}, {"cherry", 5}, {"date", 6}, {"fig", 2}, {"pear", 1}}
	if len(got) != len(want) {
		t.Fatalf("read %d rows %v, want %v", len(got), got, want)
	}
	for i := range want {
		if got[i] != want[i] {
			t.Errorf("row %d: %+v, want %+v", i, got[i], want[i])
		}
	}
}
