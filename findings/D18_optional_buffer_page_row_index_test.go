package scratch

import (
	"io"
	"sort"
	"testing"

	"github.com/parquet-go/parquet-go"
)

type RD18 struct {
	K *int64 `parquet:"k,optional"`
	P int64  `parquet:"p"`
}

// D18 (C10): after sort.Sort, materialising the page of a nullable column
// (Rows, Pages, WriteRowGroup) rebuilds the row -> value index at the wrong
// positions when the column holds nulls; writing more rows and sorting again
// then mixes up rows or panics.
func TestD18SortReadWriteSort(t *testing.T) {
	p := func(i int64) *int64 { return &i }
	for _, sc := range []parquet.SortingColumn{parquet.Ascending("k"), parquet.Descending("k"), parquet.NullsFirst(parquet.Ascending("k"))} {
	b := parquet.NewGenericBuffer[RD18](parquet.SortingRowGroupConfig(parquet.SortingColumns(sc)))
	first := []RD18{{p(3), 30}, {nil, -1}, {p(1), 10}, {p(2), 20}, {nil, -2}, {p(5), 50}}
	b.Write(first)
	sort.Sort(b)
	read := func() (out []RD18) {
		defer func() {
			if r := recover(); r != nil {
				t.Errorf("reading the sorted buffer panicked: %v", r)
			}
		}()
		rr := b.Rows()
		defer rr.Close()
		rows := make([]parquet.Row, 20)
		n, err := rr.ReadRows(rows)
		if err != nil && err != io.EOF {
			t.Fatal(err)
		}
		for i := 0; i < n; i++ {
			r := RD18{P: rows[i][1].Int64()}
			if !rows[i][0].IsNull() {
				v := rows[i][0].Int64()
				r.K = &v
			}
			out = append(out, r)
		}
		return out
	}
	read() // materialises the pages of the sorted buffer
	second := []RD18{{p(4), 40}, {nil, -3}, {p(0), 0}}
	b.Write(second)
	func() {
		defer func() {
			if r := recover(); r != nil {
				t.Errorf("sorting after a read panicked: %v", r)
			}
		}()
		sort.Sort(b)
	}()
	got := read()
	if len(got) != len(first)+len(second) {
		t.Errorf("descending=%v nullsFirst=%v: %d rows, want %d", sc.Descending(), sc.NullsFirst(), len(got), len(first)+len(second))
		continue
	}
	// each row intact: p == 10*k for non-null keys, p < 0 for null keys
	for i, r := range got {
		if r.K == nil {
			if r.P >= 0 {
				t.Errorf("descending=%v nullsFirst=%v row %d: null key with payload %d (row torn apart)", sc.Descending(), sc.NullsFirst(), i, r.P)
			}
			continue
		}
		if r.P != 10**r.K {
			t.Errorf("descending=%v nullsFirst=%v row %d: key %d with payload %d (row torn apart)", sc.Descending(), sc.NullsFirst(), i, *r.K, r.P)
		}
	}
	}
}
