package scratch

import (
	"bytes"
	"math/rand"
	"testing"

	"github.com/parquet-go/parquet-go"
)

// D57 (C01): Column.decompress hands the codec a pooled buffer sized for the
// uncompressed page and looked at the LENGTH of what the codec returned only.  The
// LZ4 codec wants a destination of three times the compressed size and otherwise
// decodes into a buffer of its own: for every page compressed by less than a factor
// of three the result has the expected length, the returned slice was ignored and the
// page was decoded from the stale pooled buffer - garbage values or a read error.
func TestD57LZ4PoorlyCompressiblePage(t *testing.T) {
	type Row struct {
		ID   int64  `parquet:"id,plain"`
		Data []byte `parquet:"data,plain"`
	}

	r := rand.New(rand.NewSource(1))
	for _, size := range []int{10, 100, 1000, 3000, 5000, 20000} {
		rows := make([]Row, 10)
		for i := range rows {
			rows[i].ID = r.Int63() // incompressible
			rows[i].Data = make([]byte, size)
			r.Read(rows[i].Data) // incompressible
		}

		buf := new(bytes.Buffer)
		w := parquet.NewGenericWriter[Row](buf, parquet.Compression(&parquet.Lz4Raw))
		if _, err := w.Write(rows); err != nil {
			t.Fatal(err)
		}
		if err := w.Close(); err != nil {
			t.Fatal(err)
		}

		got, err := parquet.Read[Row](bytes.NewReader(buf.Bytes()), int64(buf.Len()))
		if err != nil {
			t.Errorf("value size %d: read: %v", size, err)
			continue
		}
		if len(got) != len(rows) {
			t.Errorf("value size %d: read %d rows, wrote %d", size, len(got), len(rows))
			continue
		}
		for i := range rows {
			if got[i].ID != rows[i].ID || !bytes.Equal(got[i].Data, rows[i].Data) {
				t.Errorf("value size %d: row %d differs from what was written (id %d vs %d, data equal=%v)",
					size, i, got[i].ID, rows[i].ID, bytes.Equal(got[i].Data, rows[i].Data))
				break
			}
		}
	}
}
