package scratch

import (
	"fmt"
	"testing"

	"github.com/parquet-go/parquet-go/encoding"
	"github.com/parquet-go/parquet-go/encoding/delta"
	"github.com/parquet-go/parquet-go/encoding/plain"
)

// D72 (C04): failed before the fix commit; see known_findings.json.
//
// A byte array input is a (values, offsets) pair; the values of the sequence
// are values[offsets[i]:offsets[i+1]]. Nothing requires offsets[0] == 0 or
// offsets[len-1] == len(values): parquet.Page.Slice on a BYTE_ARRAY page
// returns exactly such a window (same values buffer, sub-slice of offsets).
// PLAIN and DELTA_BYTE_ARRAY honour the window; DELTA_LENGTH_BYTE_ARRAY
// encodes the right lengths but then appends the WHOLE values buffer, so the
// decoded strings are taken from the wrong position.
func TestD72DeltaLengthByteArrayOffsetWindow(t *testing.T) {
	values := []byte("aaabbcccdddd")
	offsets := []uint32{0, 3, 5, 8, 12} // aaa bb ccc dddd
	window := offsets[1:4]              // bb ccc
	want := []string{"bb", "ccc"}

	for _, enc := range []encoding.Encoding{
		new(plain.Encoding),
		new(delta.ByteArrayEncoding),
		new(delta.LengthByteArrayEncoding),
	} {
		t.Run(enc.String(), func(t *testing.T) {
			encoded, err := enc.EncodeByteArray(nil, values, window)
			if err != nil {
				t.Fatal(err)
			}
			decoded, offs, err := enc.DecodeByteArray(nil, encoded, nil)
			if err != nil {
				t.Fatal(err)
			}
			var got []string
			for i := 0; i+1 < len(offs); i++ {
				got = append(got, string(decoded[offs[i]:offs[i+1]]))
			}
			if fmt.Sprint(got) != fmt.Sprint(want) {
				t.Errorf("round trip of an offsets window: want %q got %q", want, got)
			}
		})
	}
}
