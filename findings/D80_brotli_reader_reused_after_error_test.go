package scratch
// D80 (C20): failed before the fix commit; see known_findings.json.

import (
	"bytes"
	"testing"

	"github.com/parquet-go/parquet-go/compress/brotli"
)

// PRE-EXISTING (fails on the unchanged tree, independent of patch.diff).
//
// BROTLI: a Decode call that fails with "brotli: excessive input" (a valid
// brotli stream followed by trailing bytes) leaves the trailing bytes in the
// pooled brotli.Reader (andybalholm/brotli v1.1.1 Reader.Reset does not clear
// its pending input r.in, and compress.Decompressor returns the reader to the
// pool). The next Decode on the same codec value first consumes those stale
// bytes, so decoding a perfectly valid Encode output then fails (or, for some
// trailing bytes, silently returns different content).
func TestD80BrotliDecodeAfterExcessiveInput(t *testing.T) {
	x := bytes.Repeat([]byte("hello parquet world, "), 200)

	var failures, mismatches, trials int
	for b := 0; b < 256; b++ {
		// A fresh codec value for each trial so trials are independent.
		codec := new(brotli.Codec)

		encoded, err := codec.Encode(nil, x)
		if err != nil {
			t.Fatal(err)
		}
		encoded = append([]byte(nil), encoded...)

		// Sanity: the round trip works before any failing input.
		decoded, err := codec.Decode(nil, encoded)
		if err != nil || !bytes.Equal(decoded, x) {
			t.Fatalf("round trip before the failing input: err=%v equal=%t", err, bytes.Equal(decoded, x))
		}

		// An earlier input that fails to decode: valid stream + trailing bytes.
		bad := append(append([]byte(nil), encoded...), byte(b), 1, 2, 3)
		if _, err := codec.Decode(nil, bad); err == nil {
			t.Fatalf("trailing byte %#x: expected the input with trailing bytes to be rejected", b)
		}

		// The property: the valid input still round-trips afterwards.
		trials++
		decoded, err = codec.Decode(nil, encoded)
		switch {
		case err != nil:
			failures++
			if failures <= 3 {
				t.Errorf("trailing byte %#x: Decode(Encode(x)) after a failed Decode: %v", b, err)
			}
		case !bytes.Equal(decoded, x):
			mismatches++
			if mismatches <= 3 {
				t.Errorf("trailing byte %#x: Decode(Encode(x)) after a failed Decode silently returned different content (%d bytes, want %d)", b, len(decoded), len(x))
			}
		}
	}
	if failures+mismatches > 0 {
		t.Errorf("%d/%d valid decodes failed and %d/%d silently returned wrong content after an earlier failing Decode",
			failures, trials, mismatches, trials)
	}
}

// PRE-EXISTING, silent variant of the same defect: the trailing bytes of the
// earlier (rejected) input are chosen so that, once replayed in front of the
// next input, they form a brotli stream header plus an "uncompressed
// meta-block" header that swallows the next input as raw literal bytes. The
// next Decode of a valid Encode output then returns NO error and content that
// differs from x.
func TestD80BrotliSilentCorruptionAfterExcessiveInput(t *testing.T) {
	x := bytes.Repeat([]byte("hello parquet world, "), 200)
	codec := new(brotli.Codec)

	encoded, err := codec.Encode(nil, x)
	if err != nil {
		t.Fatal(err)
	}
	encoded = append([]byte(nil), encoded...)

	// WBITS=0 (1 bit), ISLAST=0 (1 bit), MNIBBLES=0 (2 bits, 4 nibbles),
	// MLEN-1 (16 bits), ISUNCOMPRESSED=1 (1 bit), 3 bits of padding.
	mlen := len(encoded) - 1 // everything but the last byte of the next input
	header := uint32(mlen-1)<<4 | 1<<20
	trailing := []byte{byte(header), byte(header >> 8), byte(header >> 16)}

	bad := append(append([]byte(nil), encoded...), trailing...)
	if _, err := codec.Decode(nil, bad); err == nil {
		t.Fatal("expected the input with trailing bytes to be rejected")
	}

	decoded, err := codec.Decode(nil, encoded)
	if err != nil {
		t.Fatalf("Decode(Encode(x)) after a failed Decode: %v", err)
	}
	if !bytes.Equal(decoded, x) {
		t.Fatalf("Decode(Encode(x)) after a failed Decode returned no error but wrong content: got %d bytes (equal to the compressed bytes minus the last one: %t), want %d bytes",
			len(decoded), bytes.Equal(decoded, encoded[:len(encoded)-1]), len(x))
	}
}
