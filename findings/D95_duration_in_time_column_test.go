package scratch

// D95 (C01/C03): failed before the fix commit; see known_findings.json.

// PRE-EXISTING (fails on the unchanged tree): a time.Duration field tagged
// `time(millisecond)` or `time(microsecond)` does not round-trip through
// GenericWriter / parquet.Read: the writer stores the raw nanosecond count
// (truncated to 32 bits for the INT32 TIME(MILLIS) column) and the reader
// scales it by the unit, so 3h reads back as -511h52m29.44s and 5m as 83h20m.
//
// Run from the repository root:
//   go test -vet=off -count=1 -timeout 600s -run TestPreexisting3 .

import (
	"bytes"
	"testing"
	"time"

	"github.com/parquet-go/parquet-go"
)

func TestD95DurationInTimeColumn(t *testing.T) {
	type row struct {
		Ms time.Duration `parquet:"ms,time(millisecond)"`
		Us time.Duration `parquet:"us,time(microsecond)"`
		Ns time.Duration `parquet:"ns"` // control: round-trips
	}
	rows := []row{
		{Ms: 3 * time.Hour, Us: 5 * time.Minute, Ns: time.Second},
		{Ms: time.Millisecond, Us: time.Microsecond, Ns: -time.Nanosecond},
	}
	buf := new(bytes.Buffer)
	w := parquet.NewGenericWriter[row](buf)
	if _, err := w.Write(rows); err != nil {
		t.Fatal(err)
	}
	if err := w.Close(); err != nil {
		t.Fatal(err)
	}
	got, err := parquet.Read[row](bytes.NewReader(buf.Bytes()), int64(buf.Len()))
	if err != nil {
		t.Fatal(err)
	}
	for i := range rows {
		if got[i] != rows[i] {
			t.Errorf("row %d: got %+v want %+v", i, got[i], rows[i])
		}
	}
}
