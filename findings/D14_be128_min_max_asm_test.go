package parquet

// dir: .

import (
	"bytes"
	"math/rand"
	"testing"
)

// D14 (C05): minBE128 / maxBE128 (assembly in the default amd64 build) must return
// the smallest / largest 16-byte value in big-endian order.
func TestD14BE128MinMax(t *testing.T) {
	rng := rand.New(rand.NewSource(14))
	bad := 0
	for n := 1; n <= 40 && bad < 3; n++ {
		for rep := 0; rep < 200 && bad < 3; rep++ {
			data := make([][16]byte, n)
			for i := range data {
				// values sharing the high 8 bytes, differing in the low half
				data[i][0] = 0x15
				for k := 8; k < 16; k++ {
					data[i][k] = byte(rng.Intn(256))
				}
				if rep%2 == 0 {
					data[i][8] = 0x15 // same first byte of the low half too
				}
			}
			wantMin, wantMax := data[0][:], data[0][:]
			for i := range data {
				if bytes.Compare(data[i][:], wantMin) < 0 {
					wantMin = data[i][:]
				}
				if bytes.Compare(data[i][:], wantMax) > 0 {
					wantMax = data[i][:]
				}
			}
			if got := minBE128(data); !bytes.Equal(got, wantMin) {
				t.Errorf("minBE128 of %d values = %x, smallest value is %x", n, got, wantMin)
				bad++
			}
			if got := maxBE128(data); !bytes.Equal(got, wantMax) {
				t.Errorf("maxBE128 of %d values = %x, largest value is %x", n, got, wantMax)
				bad++
			}
		}
	}
}
