package scratch

// D83 (C05/C02): failed before the fix commit; see known_findings.json.

import (
	"bytes"
	"testing"

	"github.com/parquet-go/parquet-go"
)

type pre4Row struct {
	A int64 `parquet:"a"`
	B int64 `parquet:"b"`
}

// The caller declares a sorting column which is not a column of the schema.
// The writer sizes its sorting metadata from the declaration and leaves the
// entry of the unknown column zeroed: the footer then says that the row group
// is sorted by column 0 ("a") ascending, which nobody declared, and the rows
// are not sorted that way.
func TestD83UnknownSortingColumn(t *testing.T) {
	var buf bytes.Buffer
	w := parquet.NewGenericWriter[pre4Row](&buf,
		parquet.SortingWriterConfig(
			parquet.SortingColumns(parquet.Descending("b"), parquet.Ascending("missing")),
		),
	)
	if _, err := w.Write([]pre4Row{{A: 3, B: 9}, {A: 2, B: 8}, {A: 1, B: 7}}); err != nil {
		t.Fatal(err)
	}
	if err := w.Close(); err != nil {
		t.Fatal(err)
	}
	f, err := parquet.OpenFile(bytes.NewReader(buf.Bytes()), int64(buf.Len()))
	if err != nil {
		t.Fatal(err)
	}
	for _, rg := range f.Metadata().RowGroups {
		t.Logf("sorting columns: %+v", rg.SortingColumns)
		for k, sc := range rg.SortingColumns {
			if sc.ColumnIdx == 0 {
				t.Errorf("sorting column %d of the footer is column 0 (a) descending=%v, which the caller never declared", k, sc.Descending)
			}
		}
	}
}
