package scratch

import (
	"bytes"
	"errors"
	"fmt"
	"testing"

	"github.com/parquet-go/parquet-go"
)

type RD31 struct {
	ID   int64  `parquet:"id"`
	Name string `parquet:"name"`
}

// D31 (C06, C05): for a column listed in SkipPageBounds the writer still emitted a
// column index whose every page has empty min/max and NullPage=false, i.e. it claims
// that all values of every page lie in ["", ""].  Searching that index for a value
// the column holds answers "no page can contain it".
func TestD31SkipPageBoundsColumnIndex(t *testing.T) {
	var out bytes.Buffer
	w := parquet.NewGenericWriter[RD31](&out, parquet.PageBufferSize(512), parquet.SkipPageBounds("name"))
	rows := make([]RD31, 400)
	for i := range rows {
		rows[i] = RD31{ID: int64(i), Name: fmt.Sprintf("name-%04d", i)}
	}
	if _, err := w.Write(rows); err != nil {
		t.Fatal(err)
	}
	if err := w.Close(); err != nil {
		t.Fatal(err)
	}
	f, err := parquet.OpenFile(bytes.NewReader(out.Bytes()), int64(out.Len()))
	if err != nil {
		t.Fatal(err)
	}
	chunk := f.RowGroups()[0].ColumnChunks()[1]
	index, err := chunk.ColumnIndex()
	if errors.Is(err, parquet.ErrMissingColumnIndex) {
		return // no bounds, no index: nothing to mislead a reader
	}
	if err != nil {
		t.Fatal(err)
	}
	typ := chunk.Type()
	value := parquet.ByteArrayValue([]byte("name-0200"))
	if p := parquet.Search(index, value, typ); p >= index.NumPages() {
		t.Errorf("Search(%q) = %d of %d pages: the index rules out a value the column holds (page 0: min=%q max=%q nullPage=%v)",
			value, p, index.NumPages(), index.MinValue(0).ByteArray(), index.MaxValue(0).ByteArray(), index.NullPage(0))
	}
	for p := 0; p < index.NumPages(); p++ {
		if !index.NullPage(p) && typ.Compare(index.MaxValue(p), value) < 0 && p == 0 {
			t.Errorf("page %d: recorded max %q is not an upper bound of the page's values", p, index.MaxValue(p).ByteArray())
		}
	}
}
