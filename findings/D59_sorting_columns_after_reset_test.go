package scratch

// D59 (C05, C17, C02): the row groups a writer records shared the backing array of the
// writer's configured sorting columns.  Writer.Reset clears the recorded row groups in
// place (format.RowGroup.Reset), which zeroed the writer's own configuration: every
// file written after a Reset declared its row groups sorted by column 0, ascending,
// nulls last, whatever had been configured.

import (
	"bytes"
	"encoding/binary"
	"testing"

	"github.com/parquet-go/parquet-go"
	"github.com/parquet-go/parquet-go/encoding/thrift"
	"github.com/parquet-go/parquet-go/format"
)

type c02Pre2Row struct {
	A int64 `parquet:"a"`
	B int64 `parquet:"b"`
}

func c02Pre2Footer(t *testing.T, file []byte) *format.FileMetaData {
	t.Helper()
	footerLen := int(binary.LittleEndian.Uint32(file[len(file)-8:]))
	meta := new(format.FileMetaData)
	if err := thrift.Unmarshal(new(thrift.CompactProtocol), file[len(file)-8-footerLen:len(file)-8], meta); err != nil {
		t.Fatal(err)
	}
	return meta
}

func TestD59SortingColumnsAfterReset(t *testing.T) {
	// Rows are sorted by b descending; a is ascending (so "a ascending" happens
	// to hold as well, but it is not what was configured; see the second check).
	rows := []c02Pre2Row{{A: 5, B: 9}, {A: 1, B: 8}, {A: 3, B: 7}}

	var first, second bytes.Buffer
	w := parquet.NewGenericWriter[c02Pre2Row](&first,
		parquet.SortingWriterConfig(parquet.SortingColumns(parquet.Descending("b"))),
	)
	if _, err := w.Write(rows); err != nil {
		t.Fatal(err)
	}
	if err := w.Close(); err != nil {
		t.Fatal(err)
	}

	w.Reset(&second)
	if _, err := w.Write(rows); err != nil {
		t.Fatal(err)
	}
	if err := w.Close(); err != nil {
		t.Fatal(err)
	}

	want := format.SortingColumn{ColumnIdx: 1, Descending: true, NullsFirst: false}
	for name, file := range map[string][]byte{"first file": first.Bytes(), "file written after Reset": second.Bytes()} {
		meta := c02Pre2Footer(t, file)
		for i, rg := range meta.RowGroups {
			if len(rg.SortingColumns) != 1 || rg.SortingColumns[0] != want {
				t.Errorf("%s: row group %d declares sorting columns %+v, want [%+v]", name, i, rg.SortingColumns, want)
			}
		}
	}

	// The declared order (column 0 = "a", ascending) is not even true of the
	// rows in the file: a = 5, 1, 3.
	meta := c02Pre2Footer(t, second.Bytes())
	if sc := meta.RowGroups[0].SortingColumns; len(sc) == 1 && sc[0].ColumnIdx == 0 && !sc[0].Descending {
		t.Errorf("file written after Reset declares column 0 ascending, but its values are 5, 1, 3")
	}
}
