package scratch

import (
	"bytes"
	"fmt"
	"testing"

	"github.com/parquet-go/parquet-go"
)

type InnerD37 struct {
	X int64 `parquet:"x"`
}

type RD37 struct {
	S InnerD37 `parquet:"s,optional"`
}

func levelsD37(t *testing.T, data []byte) string {
	f, err := parquet.OpenFile(bytes.NewReader(data), int64(len(data)))
	if err != nil {
		t.Fatal(err)
	}
	r := f.RowGroups()[0].Rows()
	defer r.Close()
	buf := make([]parquet.Row, 4)
	s := ""
	for {
		n, err := r.ReadRows(buf)
		for _, row := range buf[:n] {
			s += fmt.Sprintf("%+v ", row[0])
		}
		if err != nil {
			return s
		}
	}
}

// D37 (C03, C01): an optional field that is neither a pointer nor a slice is null
// when it holds the zero value (isNullValue documents this for structs too, and the
// reflection path applies it).  The typed path marked every struct as present, so
// the same Go value produced different definition levels depending on the writer.
func TestD37OptionalZeroStruct(t *testing.T) {
	rows := []RD37{{}, {S: InnerD37{X: 5}}}
	var typed, refl bytes.Buffer
	tw := parquet.NewGenericWriter[RD37](&typed)
	tw.Write(rows)
	if err := tw.Close(); err != nil {
		t.Fatal(err)
	}
	rw := parquet.NewWriter(&refl, parquet.SchemaOf(RD37{}))
	for i := range rows {
		if err := rw.Write(&rows[i]); err != nil {
			t.Fatal(err)
		}
	}
	if err := rw.Close(); err != nil {
		t.Fatal(err)
	}
	a, b := levelsD37(t, typed.Bytes()), levelsD37(t, refl.Bytes())
	if a != b {
		t.Errorf("column s.x:\n typed path:      %s\n reflection path: %s", a, b)
	}
	if want := "C:0 D:0 R:0 V:<null> C:0 D:1 R:0 V:5 "; b != want {
		t.Errorf("reflection path: %s, want %s", b, want)
	}
}
