package scratch

import (
	"sort"
	"time"
	"testing"

	"github.com/parquet-go/parquet-go"
)

type OptI struct {
	V int64 `parquet:"v,optional"`
}

// D11 (C10): sorting a buffer with an optional column of >= 9 rows (len % 8 != 0)
// corrupted the row->value map through the AVX2 fill kernel (and could loop forever).
func TestD11SortOptionalColumn(t *testing.T) {
	buf := parquet.NewGenericBuffer[OptI](parquet.SortingRowGroupConfig(parquet.SortingColumns(parquet.Ascending("v"))))
	in := []OptI{{9}, {3}, {10}, {7}, {1}, {8}, {2}, {11}, {6}, {5}, {4}}
	if _, err := buf.Write(in); err != nil {
		t.Fatal(err)
	}
	done := make(chan struct{})
	var out []OptI
	go func() {
		defer close(done)
		sort.Sort(buf)
		rows := buf.Rows()
		defer rows.Close()
		out = make([]OptI, len(in))
		prs := make([]parquet.Row, len(in))
		n, _ := rows.ReadRows(prs)
		for i := 0; i < n; i++ {
			if !prs[i][0].IsNull() {
				out[i].V = prs[i][0].Int64()
			}
		}
	}()
	select {
	case <-done:
	case <-time.After(10 * time.Second):
		t.Fatal("sort.Sort + Rows() of a buffer with an optional column did not terminate")
	}
	for i, r := range out {
		if r.V != int64(i+1) {
			t.Fatalf("sorted values %v, want 1..11", out)
		}
	}
}
