package scratch

import (
	"io"
	"sort"
	"testing"

	"github.com/parquet-go/parquet-go"
)

type RD32 struct {
	K int64 `parquet:"k"`
}

// D32 (C09): the column chunks of a merged row group are those of its inputs laid
// end to end, while its rows interleave them.  When such a row group is merged
// again, its key range was read off the first and last page of that concatenated
// column index - the range of nothing in particular - so a row group overlapping
// it could be classified as disjoint and concatenated instead of merged.
func TestD32NestedMergeUnsorted(t *testing.T) {
	// (duplicate dropping keeps the merge of overlapping inputs a plain heap merge)
	opt := parquet.SortingRowGroupConfig(parquet.SortingColumns(parquet.Ascending("k")), parquet.DropDuplicatedRows(true))
	mk := func(keys ...int64) parquet.RowGroup {
		b := parquet.NewGenericBuffer[RD32](opt)
		rows := make([]RD32, len(keys))
		for i, k := range keys {
			rows[i].K = k
		}
		b.Write(rows)
		sort.Sort(b)
		return b
	}
	inner, err := parquet.MergeRowGroups([]parquet.RowGroup{mk(10, 30, 90), mk(20, 40, 60)}, opt)
	if err != nil {
		t.Fatal(err)
	}
	outer, err := parquet.MergeRowGroups([]parquet.RowGroup{inner, mk(70, 80)}, opt)
	if err != nil {
		t.Fatal(err)
	}
	rows := outer.Rows()
	defer rows.Close()
	var got []int64
	buf := make([]parquet.Row, 4)
	for {
		n, err := rows.ReadRows(buf)
		for _, r := range buf[:n] {
			got = append(got, r[0].Int64())
		}
		if err != nil {
			if err != io.EOF {
				t.Fatal(err)
			}
			break
		}
	}
	want := []int64{10, 20, 30, 40, 60, 70, 80, 90}
	if len(got) != len(want) {
		t.Fatalf("merged rows %v, want %v", got, want)
	}
	for i := range want {
		if got[i] != want[i] {
			t.Fatalf("merged rows %v, want %v", got, want)
		}
	}
}
