package scratch

// PRE-EXISTING (fails on the unchanged tree), package scratch, place in repo root.
//
// A pointer to a pointer (**int64): the schema has ONE optional level (max
// definition level 1), but the typed path increments the definition level once
// per pointer, so a set value is stored with definition level 2 (> max) and
// reads back as NULL, and GenericWriter[T].Write panics with an index out of
// range. Schema.Deconstruct stores the value at definition level 1.

import (
	"bytes"
	"testing"

	"github.com/parquet-go/parquet-go"
)

type pre3Row struct {
	P **int64 `parquet:"p"`
}

func TestD62PointerToPointer(t *testing.T) {
	one := int64(1)
	p := &one
	var inner *int64
	values := []pre3Row{{P: &p}, {P: &inner}, {}}
	schema := parquet.SchemaOf(pre3Row{})

	buf := parquet.NewGenericBuffer[pre3Row]()
	if _, err := buf.Write(values); err != nil {
		t.Fatal(err)
	}
	rows := buf.Rows()
	defer rows.Close()
	got := make([]parquet.Row, 3)
	if n, _ := rows.ReadRows(got); n != 3 {
		t.Fatalf("read %d rows", n)
	}
	for i := range values {
		want := schema.Deconstruct(nil, &values[i])
		if !got[i].Equal(want) {
			t.Errorf("row %d: GenericBuffer.Write and Schema.Deconstruct disagree\n typed:       %+v\n deconstruct: %+v", i, got[i], want)
		}
	}

	func() {
		defer func() {
			if r := recover(); r != nil {
				t.Errorf("GenericWriter.Write/Close panicked: %v", r)
			}
		}()
		var b bytes.Buffer
		w := parquet.NewGenericWriter[pre3Row](&b)
		if _, err := w.Write(values); err != nil {
			t.Error(err)
		}
		if err := w.Close(); err != nil {
			t.Error(err)
		}
	}()
}
