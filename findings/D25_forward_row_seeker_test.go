package scratch

import (
	"io"
	"testing"

	"github.com/parquet-go/parquet-go"
)

type RD25 struct {
	A int64 `parquet:"a"`
	B int64 `parquet:"b"`
}
type RD25B struct {
	B int64 `parquet:"b"`
}

// D25 (C12, C08): ConvertRowReader over a source that is not itself a RowSeeker
// emulates forward seeks by skipping rows.  The copy loop that moves the kept rows
// to the front of the batch never advanced its source index (index out of range),
// and the reader's position was only tracked while skipping, so a second seek
// skipped rows counted from a stale position.
func TestD25ForwardSeekOnConvertedRowReader(t *testing.T) {
	newReader := func() parquet.RowReadSeeker {
		buf := parquet.NewGenericBuffer[RD25]()
		rows := make([]RD25, 30)
		for i := range rows {
			rows[i] = RD25{A: int64(i), B: int64(100 + i)}
		}
		buf.Write(rows)
		conv, err := parquet.Convert(parquet.SchemaOf(RD25B{}), parquet.SchemaOf(RD25{}))
		if err != nil {
			t.Fatal(err)
		}
		// hide the source's own SeekToRow
		return parquet.ConvertRowReader(struct{ parquet.RowReader }{buf.Rows()}, conv).(parquet.RowReadSeeker)
	}
	read := func(r parquet.RowReader, n int) (out []int64, err error) {
		defer func() {
			if p := recover(); p != nil {
				t.Errorf("ReadRows panicked: %v", p)
			}
		}()
		rows := make([]parquet.Row, n)
		k, err := r.ReadRows(rows)
		for i := 0; i < k; i++ {
			out = append(out, rows[i][0].Int64())
		}
		return out, err
	}
	// a forward seek that lands inside the first batch
	r := newReader()
	if err := r.SeekToRow(3); err != nil {
		t.Fatal(err)
	}
	got, err := read(r, 10)
	if err != nil && err != io.EOF {
		t.Fatal(err)
	}
	if len(got) == 0 || got[0] != 103 {
		t.Errorf("after SeekToRow(3): first rows %v, want 103...", got)
	}
	// read on, then seek forward again: the position must account for every row read
	r = newReader()
	if got, _ := read(r, 10); len(got) != 10 || got[0] != 100 {
		t.Fatalf("first batch %v", got)
	}
	if err := r.SeekToRow(15); err != nil {
		t.Fatal(err)
	}
	got, _ = read(r, 10)
	if len(got) == 0 || got[0] != 115 {
		t.Errorf("read 10 rows, SeekToRow(15): next rows %v, want 115...", got)
	}
	// a seek behind the rows already consumed cannot be served by a forward-only reader
	if err := r.SeekToRow(5); err == nil {
		if got, _ := read(r, 5); len(got) > 0 && got[0] != 105 {
			t.Errorf("SeekToRow(5) after reading 25 rows returned no error and rows %v", got)
		}
	}
}
