package scratch

import (
	"io"
	"sort"
	"testing"

	"github.com/parquet-go/parquet-go"
)

// D65 (C10), failed before the fix commit: a Buffer / GenericBuffer sorted
// by a DESCENDING repeated column does not agree with Schema.Comparator for
// the same sorting columns when the list of one row is a strict prefix of the
// list of another row.
//
// repeatedColumnBuffer.Less breaks the tie on the common prefix with
// "row1Length < row2Length" and the descending wrapper (reversedColumnBuffer)
// reverses it, so the buffer places the longer list first. The comparator
// (compareRowsFuncOfColumnValues) always places the shorter list first, no
// matter the direction, and RowBuffer / SortingWriter follow the comparator:
// the same rows with the same sorting columns come out in different orders
// depending on which sorting container is used, and sort.Sort on a
// Buffer/GenericBuffer leaves rows that the comparator reports out of order.
func TestD65DescendingRepeatedPrefix(t *testing.T) {
	type Row struct {
		C []int64 `parquet:"c"`
		T int64   `parquet:"t"`
	}

	rows := []Row{
		{C: []int64{2}, T: 0},
		{C: []int64{2, 1}, T: 1},
		{C: []int64{3}, T: 2},
	}
	sorting := []parquet.SortingColumn{parquet.Descending("c")}
	schema := parquet.SchemaOf(Row{})
	compare := schema.Comparator(sorting...)

	read := func(rows parquet.Rows) []parquet.Row {
		defer rows.Close()
		var out []parquet.Row
		buf := make([]parquet.Row, 10)
		for {
			n, err := rows.ReadRows(buf)
			for _, row := range buf[:n] {
				out = append(out, row.Clone())
			}
			if err == io.EOF {
				return out
			}
			if err != nil {
				t.Fatal(err)
			}
		}
	}

	check := func(what string, out []parquet.Row) {
		if len(out) != len(rows) {
			t.Fatalf("%s: %d rows, want %d", what, len(out), len(rows))
		}
		for i := 1; i < len(out); i++ {
			if compare(out[i-1], out[i]) > 0 {
				t.Errorf("%s: Schema.Comparator(%v) reports rows %d and %d out of order:\n  %+v\n  %+v",
					what, sorting, i-1, i, out[i-1], out[i])
			}
		}
	}

	generic := parquet.NewGenericBuffer[Row](parquet.SortingRowGroupConfig(parquet.SortingColumns(sorting...)))
	if _, err := generic.Write(rows); err != nil {
		t.Fatal(err)
	}
	sort.Sort(generic)
	check("GenericBuffer", read(generic.Rows()))

	buffer := parquet.NewBuffer(schema, parquet.SortingRowGroupConfig(parquet.SortingColumns(sorting...)))
	for i := range rows {
		if err := buffer.Write(&rows[i]); err != nil {
			t.Fatal(err)
		}
	}
	sort.Sort(buffer)
	check("Buffer", read(buffer.Rows()))

	// For reference: the row-oriented container agrees with the comparator.
	rowbuf := parquet.NewRowBuffer[Row](parquet.SortingRowGroupConfig(parquet.SortingColumns(sorting...)))
	if _, err := rowbuf.Write(rows); err != nil {
		t.Fatal(err)
	}
	sort.Sort(rowbuf)
	check("RowBuffer", read(rowbuf.Rows()))
}
