package scratch

// D85 (C19/C03): failed (panicked) before the fix commit; see known_findings.json.

import (
	"bytes"
	"fmt"
	"io"
	"reflect"
	"testing"

	"github.com/parquet-go/parquet-go"
)

// PRE-EXISTING (fails on the unchanged tree): a repeated variant column
// (`[]any` field with the "variant" tag, schema Repeated(Variant()) or
// Repeated(ShreddedVariant(...))) written through GenericBuffer.Write +
// GenericWriter.WriteRowGroup does not round-trip: the buffer write path
// applies the repetition of the column twice (writeRowsFuncOfSlice and then
// writeValueFuncOf on the repeated node again), producing definition levels
// above the column's maximum, and WriteRowGroup panics with
// "index out of range [2] with length 2". The same rows written through
// GenericWriter.Write round-trip fine.
func TestD85RepeatedVariantThroughBuffer(t *testing.T) {
	shredded, err := parquet.ShreddedVariant(parquet.Int(64))
	if err != nil {
		t.Fatal(err)
	}
	type row struct {
		Vars []any `parquet:"vars,variant"`
	}
	rows := []row{
		{Vars: []any{int64(1), "fallback", int64(3)}},
		{Vars: []any{}},
		{Vars: []any{int64(9)}},
	}
	for name, node := range map[string]parquet.Node{
		"unshredded": parquet.Variant(),
		"shredded":   shredded,
	} {
		t.Run(name, func(t *testing.T) {
			schema := parquet.NewSchema("root", parquet.Group{"vars": parquet.Repeated(node)})

			write := func() (data []byte, err error) {
				defer func() {
					if r := recover(); r != nil {
						err = fmt.Errorf("panic: %v", r)
					}
				}()
				buffer := parquet.NewGenericBuffer[row](schema)
				if _, err := buffer.Write(rows); err != nil {
					return nil, err
				}
				buf := new(bytes.Buffer)
				w := parquet.NewGenericWriter[row](buf, schema)
				if _, err := w.WriteRowGroup(buffer); err != nil {
					return nil, err
				}
				if err := w.Close(); err != nil {
					return nil, err
				}
				return buf.Bytes(), nil
			}
			data, err := write()
			if err != nil {
				t.Fatalf("writing through GenericBuffer: %v", err)
			}

			r := parquet.NewGenericReader[row](bytes.NewReader(data), schema)
			defer r.Close()
			got := make([]row, len(rows)+1)
			n, err := r.Read(got)
			if err != nil && err != io.EOF {
				t.Fatalf("reading: %v", err)
			}
			if n != len(rows) {
				t.Fatalf("read %d rows, want %d", n, len(rows))
			}
			for i := range rows {
				if len(rows[i].Vars) == 0 && len(got[i].Vars) == 0 {
					continue
				}
				if !reflect.DeepEqual(got[i].Vars, rows[i].Vars) {
					t.Errorf("row %d: got %#v, want %#v", i, got[i].Vars, rows[i].Vars)
				}
			}
		})
	}
}
