package scratch

// D58 (C14): FilePages.readPage read the body of a page with io.ReadFull and returned
// its error unchanged.  When the page header has been decoded and the source then
// delivers no byte at all of the body (the header ended exactly where the read buffer
// ended and the next ReadAt is (0, io.EOF), or the source has run dry for good),
// io.ReadFull returns a bare io.EOF, which ReadPage's callers take for the regular end
// of the column chunk: the remaining rows vanished without an error.  Easy to hit with
// a small ReadBufferSize; the test sweeps a few sizes and every ReadAt call index.

import (
	"bytes"
	"fmt"
	"io"
	"testing"

	"github.com/parquet-go/parquet-go"
)

type c14PreRow struct {
	ID   int64  `parquet:"id"`
	Name string `parquet:"name"`
}

type c14DryReader struct {
	data       []byte
	calls      int
	failAt     int
	persistent bool
	hit        bool
}

func (r *c14DryReader) ReadAt(p []byte, off int64) (int, error) {
	k := r.calls
	r.calls++
	if k == r.failAt || (r.persistent && r.failAt >= 0 && k > r.failAt) {
		r.hit = true
		return 0, io.EOF
	}
	return bytes.NewReader(r.data).ReadAt(p, off)
}

func c14PreRead(r io.ReaderAt, size int64, bufferSize int) (rows []c14PreRow, err error) {
	defer func() {
		if x := recover(); x != nil {
			err = fmt.Errorf("panic: %v", x)
		}
	}()
	f, err := parquet.OpenFile(r, size, parquet.ReadBufferSize(bufferSize))
	if err != nil {
		return nil, err
	}
	reader := parquet.NewGenericReader[c14PreRow](f)
	defer reader.Close()
	buf := make([]c14PreRow, 50)
	for {
		n, err := reader.Read(buf)
		rows = append(rows, buf[:n]...)
		if err == io.EOF {
			return rows, nil
		}
		if err != nil {
			return rows, err
		}
		if n == 0 {
			return rows, io.ErrNoProgress
		}
	}
}

func TestD58PageBodyEOF(t *testing.T) {
	want := make([]c14PreRow, 600)
	for i := range want {
		want[i] = c14PreRow{ID: int64(i), Name: fmt.Sprintf("name-%03d", i)}
	}
	out := new(bytes.Buffer)
	w := parquet.NewGenericWriter[c14PreRow](out, parquet.PageBufferSize(256))
	for i := 0; i < len(want); i += 200 {
		if _, err := w.Write(want[i : i+200]); err != nil {
			t.Fatal(err)
		}
		if err := w.Flush(); err != nil {
			t.Fatal(err)
		}
	}
	if err := w.Close(); err != nil {
		t.Fatal(err)
	}
	data := out.Bytes()
	size := int64(len(data))

	silent := 0
	for bufferSize := 16; bufferSize <= 64; bufferSize++ {
		probe := &c14DryReader{data: data, failAt: -1}
		got, err := c14PreRead(probe, size, bufferSize)
		if err != nil || len(got) != len(want) {
			t.Fatalf("ReadBufferSize(%d): reading without faults: %d rows, %v", bufferSize, len(got), err)
		}
		for _, persistent := range []bool{false, true} {
			for k := 0; k < probe.calls; k++ {
				r := &c14DryReader{data: data, failAt: k, persistent: persistent}
				got, err := c14PreRead(r, size, bufferSize)
				if err != nil || !r.hit {
					continue
				}
				same := len(got) == len(want)
				for i := 0; same && i < len(want); i++ {
					same = got[i] == want[i]
				}
				if !same {
					silent++
					if silent <= 10 {
						t.Errorf("ReadBufferSize(%d), ReadAt call %d returned (0, io.EOF) (source dry from then on: %v): no error reported but %d of %d rows read", bufferSize, k, persistent, len(got), len(want))
					}
				}
			}
		}
	}
	if silent > 0 {
		t.Errorf("%d runs in total lost rows without reporting an error", silent)
	}
}
