package scratch

// D64 (C03): failed before the fix commit; see known_findings.json.
//
// A 64-bit Go integer narrowed with the int(32) / uint(32) tag (which SchemaOf
// accepts for every integer kind): the typed path stores the low 32 bits, the
// reflection path (Schema.Deconstruct, Writer.Write(any)) panicked with
// "cannot create parquet value of type INT32 from go value of type uint64".

import (
	"testing"

	"github.com/parquet-go/parquet-go"
)

type d64Row struct {
	G uint64 `parquet:"g,int(32)"`
	H int64  `parquet:"h,int(32)"`
	I int    `parquet:"i,uint(32)"`
}

func TestD64NarrowedInt(t *testing.T) {
	value := d64Row{G: 7, H: -3, I: 9}
	schema := parquet.SchemaOf(d64Row{})

	buf := parquet.NewGenericBuffer[d64Row]()
	if _, err := buf.Write([]d64Row{value}); err != nil {
		t.Fatal(err)
	}
	rows := buf.Rows()
	defer rows.Close()
	got := make([]parquet.Row, 1)
	if n, _ := rows.ReadRows(got); n != 1 {
		t.Fatalf("read %d rows", n)
	}
	defer func() {
		if r := recover(); r != nil {
			t.Errorf("Schema.Deconstruct panicked on a value the typed path accepts: %v", r)
		}
	}()
	want := schema.Deconstruct(nil, &value)
	if !got[0].Equal(want) {
		t.Errorf("GenericBuffer.Write and Schema.Deconstruct disagree\n typed:       %+v\n deconstruct: %+v", got[0], want)
	}
}
