package scratch

import (
	"bytes"
	"testing"

	"github.com/parquet-go/parquet-go"
)

// D46 (C14 "none panics"): a Writer built without a schema learns it from the first
// row.  Closing it before any row was written dereferenced the still-missing inner
// writer (Close tests `w.writer != nil` two lines further down, Flush does so first).
func TestD46CloseWithoutSchema(t *testing.T) {
	defer func() {
		if p := recover(); p != nil {
			t.Errorf("Close panicked: %v", p)
		}
	}()
	var buf bytes.Buffer
	w := parquet.NewWriter(&buf)
	if err := w.Flush(); err != nil {
		t.Fatal(err)
	}
	if err := w.Close(); err != nil {
		t.Fatal(err)
	}
}
