package scratch

import (
	"bytes"
	"fmt"
	"io"
	"testing"

	"github.com/parquet-go/parquet-go"
)

type RD47 struct {
	ID   int64  `parquet:"id"`
	Name string `parquet:"name"`
}

type eofAtD47 struct {
	data []byte
	cut  int64
}

func (r *eofAtD47) ReadAt(p []byte, off int64) (int, error) {
	if off >= r.cut {
		return 0, io.EOF
	}
	n := copy(p, r.data[off:r.cut])
	if n < len(p) {
		return n, io.EOF
	}
	return n, nil
}

// D47 (C14, C02): WriteRowGroup copies the column chunks of a compatible file row
// group byte for byte with io.Copy from a SectionReader.  io.Copy takes an early
// io.EOF of the source for the normal end, and the byte count was not looked at: a
// source that ends inside a chunk gave a nil error and an output file whose chunk is
// shorter than its metadata says.
func TestD47CopiedChunkShortSource(t *testing.T) {
	rows := make([]RD47, 500)
	for i := range rows {
		rows[i] = RD47{ID: int64(i), Name: fmt.Sprintf("name-%d", i)}
	}
	var src bytes.Buffer
	w := parquet.NewGenericWriter[RD47](&src)
	w.Write(rows)
	if err := w.Close(); err != nil {
		t.Fatal(err)
	}
	data := src.Bytes()
	source := &eofAtD47{data: data, cut: int64(len(data))}
	f, err := parquet.OpenFile(source, int64(len(data)))
	if err != nil {
		t.Fatal(err)
	}
	meta := f.Metadata().RowGroups[0].Columns[1].MetaData
	source.cut = meta.DataPageOffset + meta.TotalCompressedSize/2 // the source ends inside the second chunk

	var dst bytes.Buffer
	out := parquet.NewGenericWriter[RD47](&dst)
	_, err1 := out.WriteRowGroup(f.RowGroups()[0])
	err2 := out.Close()
	if err1 != nil || err2 != nil {
		return // reported
	}
	got, err := parquet.Read[RD47](bytes.NewReader(dst.Bytes()), int64(dst.Len()))
	if err != nil || len(got) != len(rows) {
		t.Errorf("WriteRowGroup and Close returned nil although the source ended inside a chunk; the output reads back %d of %d rows, err=%v", len(got), len(rows), err)
	}
}
