package scratch

// D91 (C01/C03): failed before the fix commit; see known_findings.json.

// PRE-EXISTING (fails on the unchanged tree): a time.Time field tagged `date`
// (INT32 DATE column) is not written as days since the epoch. Both
// GenericWriter.Write and Writer.Write store the nanosecond count truncated to
// 32 bits, so the leaf value on disk is wrong and the date read back is
// garbage (e.g. year 732794).
//
// Run from the repository root:
//   go test -vet=off -count=1 -timeout 600s -run TestPreexisting2 .

import (
	"bytes"
	"testing"
	"time"

	"github.com/parquet-go/parquet-go"
)

func TestD91DateTaggedTime(t *testing.T) {
	type row struct {
		D time.Time `parquet:"d,date"`
	}
	rows := []row{
		{D: time.Date(2024, 3, 1, 0, 0, 0, 0, time.UTC)},
		{D: time.Date(1970, 1, 2, 0, 0, 0, 0, time.UTC)},
		{D: time.Date(1969, 12, 31, 0, 0, 0, 0, time.UTC)},
	}

	check := func(name string, data []byte) {
		got, err := parquet.Read[row](bytes.NewReader(data), int64(len(data)))
		if err != nil {
			t.Fatalf("%s: %v", name, err)
		}
		for i := range rows {
			if !got[i].D.Equal(rows[i].D) {
				t.Errorf("%s: row %d: got %v want %v", name, i, got[i].D, rows[i].D)
			}
		}
	}

	buf := new(bytes.Buffer)
	gw := parquet.NewGenericWriter[row](buf)
	if _, err := gw.Write(rows); err != nil {
		t.Fatal(err)
	}
	if err := gw.Close(); err != nil {
		t.Fatal(err)
	}
	check("GenericWriter", buf.Bytes())

	buf = new(bytes.Buffer)
	w := parquet.NewWriter(buf, parquet.SchemaOf(row{}))
	for i := range rows {
		if err := w.Write(&rows[i]); err != nil {
			t.Fatal(err)
		}
	}
	if err := w.Close(); err != nil {
		t.Fatal(err)
	}
	check("Writer", buf.Bytes())
}
