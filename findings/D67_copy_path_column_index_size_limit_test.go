package scratch

import (
	"bytes"
	"fmt"
	"testing"

	"github.com/parquet-go/parquet-go"
)

type preexisting2Row struct {
	ID   int64  `parquet:"id"`
	Name string `parquet:"name"`
}

// D67 (C11), failed before the fix commit. TestD67CopyPathColumnIndexSizeLimit: the destination writer limits the
// size of the column index values to 4 bytes; the source file was written with
// the default limit (16). WriteRowGroup copies the source column index
// verbatim, so the output does not honour the destination writer's setting,
// while writing the same rows one by one does.
func TestD67CopyPathColumnIndexSizeLimit(t *testing.T) {
	rows := make([]preexisting2Row, 500)
	for i := range rows {
		rows[i] = preexisting2Row{ID: int64(i), Name: fmt.Sprintf("a-long-name-value-%06d", i)}
	}

	src := new(bytes.Buffer)
	sw := parquet.NewGenericWriter[preexisting2Row](src)
	if _, err := sw.Write(rows); err != nil {
		t.Fatal(err)
	}
	if err := sw.Close(); err != nil {
		t.Fatal(err)
	}
	srcFile, err := parquet.OpenFile(bytes.NewReader(src.Bytes()), int64(src.Len()))
	if err != nil {
		t.Fatal(err)
	}

	limit := parquet.ColumnIndexSizeLimit(func([]string) int { return 4 })

	ref := new(bytes.Buffer)
	rw := parquet.NewGenericWriter[preexisting2Row](ref, limit)
	for i := range rows {
		if _, err := rw.Write(rows[i : i+1]); err != nil {
			t.Fatal(err)
		}
	}
	if err := rw.Close(); err != nil {
		t.Fatal(err)
	}

	out := new(bytes.Buffer)
	ow := parquet.NewGenericWriter[preexisting2Row](out, limit)
	for _, rg := range srcFile.RowGroups() {
		if _, err := ow.WriteRowGroup(rg); err != nil {
			t.Fatal(err)
		}
	}
	if err := ow.Close(); err != nil {
		t.Fatal(err)
	}

	maxIndexValueLen := func(b []byte) (n int) {
		f, err := parquet.OpenFile(bytes.NewReader(b), int64(len(b)))
		if err != nil {
			t.Fatal(err)
		}
		for _, rg := range f.RowGroups() {
			ci, err := rg.ColumnChunks()[1].ColumnIndex()
			if err != nil {
				t.Fatal(err)
			}
			for p := 0; p < ci.NumPages(); p++ {
				n = max(n, len(ci.MinValue(p).ByteArray()), len(ci.MaxValue(p).ByteArray()))
			}
		}
		return n
	}

	refLen := maxIndexValueLen(ref.Bytes())
	outLen := maxIndexValueLen(out.Bytes())
	if refLen > 4 {
		t.Fatalf("row path: column index values of %d bytes, limit is 4", refLen)
	}
	if outLen != refLen {
		t.Errorf("column index values are up to %d bytes long with WriteRowGroup, %d bytes with the row path (ColumnIndexSizeLimit=4)", outLen, refLen)
	}
}
