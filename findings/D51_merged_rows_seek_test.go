package scratch

import (
	"sort"
	"testing"
	"time"

	"github.com/parquet-go/parquet-go"
)

type RD51 struct {
	K int64 `parquet:"k"`
}

// D51 (C08, C09): reading a merged row group after a forward SeekToRow discards the
// rows before the target by reading them into the caller's buffer - and then advanced
// the buffer past them (rows = rows[n:]), so the rows wanted were written BEHIND the
// discarded ones: the count returned was that of the wanted rows, but the first n
// entries of the caller's slice held the skipped rows.  With a one-row buffer the
// slice became empty and the call never returned.
func TestD51MergedRowsSeek(t *testing.T) {
	opt := parquet.SortingRowGroupConfig(parquet.SortingColumns(parquet.Ascending("k")))
	mk := func(first int64) parquet.RowGroup {
		b := parquet.NewGenericBuffer[RD51](opt)
		for k := first; k < 40; k += 2 {
			b.Write([]RD51{{k}})
		}
		sort.Sort(b)
		return b
	}
	merged, err := parquet.MergeRowGroups([]parquet.RowGroup{mk(0), mk(1)}, opt)
	if err != nil {
		t.Fatal(err)
	}
	rows := merged.Rows()
	defer rows.Close()
	if err := rows.SeekToRow(5); err != nil {
		t.Fatal(err)
	}
	buf := make([]parquet.Row, 10)
	n, err := rows.ReadRows(buf)
	if err != nil || n == 0 {
		t.Fatalf("n=%d err=%v", n, err)
	}
	for i := 0; i < n; i++ {
		if got := buf[i][0].Int64(); got != int64(5+i) {
			t.Errorf("after SeekToRow(5): row %d of the batch has key %d, want %d", i, got, 5+i)
			break
		}
	}
	// one row at a time
	rows2 := merged.Rows()
	defer rows2.Close()
	rows2.SeekToRow(3)
	done := make(chan int64, 1)
	go func() {
		one := make([]parquet.Row, 1)
		if n, _ := rows2.ReadRows(one); n == 1 {
			done <- one[0][0].Int64()
		} else {
			done <- -1
		}
	}()
	select {
	case k := <-done:
		if k != 3 {
			t.Errorf("SeekToRow(3) then ReadRows(1 row): key %d", k)
		}
	case <-time.After(5 * time.Second):
		t.Errorf("SeekToRow(3) then ReadRows with a one-row buffer does not return")
	}
}
