package scratch

import (
	"bytes"
	"math"
	"testing"

	"github.com/parquet-go/parquet-go"
)

type RD44 struct {
	V float64 `parquet:"v,dict"`
}

// D44 (C05, C17): the bounds of a DICTIONARY-encoded float or double page were taken
// from the raw min/max kernels.  With NaN among the values the vector kernels of the
// default build replace the running bound by whatever follows a NaN, so a page was
// given bounds that exclude values it holds (min -6 for a page containing -10); the
// portable build answered NaN, NaN whenever the first value was NaN.  Plain pages
// already left NaN out (floatPage.Bounds).
func TestD44DictionaryFloatBoundsWithNaN(t *testing.T) {
	nan := math.NaN()
	for _, vals := range [][]float64{
		{nan, 3, 1, 2},
		{0.5, nan, 3},
		{nan, nan, -5, nan, -4, nan, -10, 7, 8, 3, nan, nan, -5, -6},
		{6, nan, -6, nan, -7, 0, 8, 1, 4, -7, -2, -2, 0, -10, nan, 7, 1, 0, -10},
	} {
		lo, hi := math.Inf(1), math.Inf(-1)
		rows := make([]RD44, len(vals))
		for i, v := range vals {
			rows[i].V = v
			if !math.IsNaN(v) {
				lo, hi = math.Min(lo, v), math.Max(hi, v)
			}
		}
		var out bytes.Buffer
		w := parquet.NewGenericWriter[RD44](&out)
		w.Write(rows)
		if err := w.Close(); err != nil {
			t.Fatal(err)
		}
		f, err := parquet.OpenFile(bytes.NewReader(out.Bytes()), int64(out.Len()))
		if err != nil {
			t.Fatal(err)
		}
		index, err := f.RowGroups()[0].ColumnChunks()[0].ColumnIndex()
		if err != nil {
			t.Fatal(err)
		}
		if mn, mx := index.MinValue(0).Double(), index.MaxValue(0).Double(); mn != lo || mx != hi {
			t.Errorf("values %v: page bounds [%v, %v], want [%v, %v]", vals, mn, mx, lo, hi)
		}
	}
}
