package scratch

import (
	"testing"

	"github.com/parquet-go/parquet-go/variant"
)

// D40 (C19): MetadataBuilder.Build documents that the returned Metadata owns its
// strings and stays valid after Reset.  It "detached" each name with
// string(b.stringAt(i)) - a string-to-string conversion, which copies nothing - so
// the names still pointed into the builder's buffer: after Reset and new Adds a
// Metadata kept from Build named the NEW fields, and values decoded with it got
// the wrong field names.
func TestD40MetadataBuildAliasesBuilder(t *testing.T) {
	var b variant.MetadataBuilder
	b.Add("alpha")
	b.Add("bravo")
	m, _ := b.Build()
	b.Reset()
	b.Add("XXXXX")
	b.Add("YYYYY")
	if len(m.Strings) != 2 || m.Strings[0] != "alpha" || m.Strings[1] != "bravo" {
		t.Errorf("Metadata returned by Build changed after Reset and Add: %q, want [alpha bravo]", m.Strings)
	}
}
