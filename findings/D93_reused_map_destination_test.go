package scratch

// D93 (C01): failed before the fix commit; see known_findings.json.

// PRE-EXISTING (fails on the unchanged tree): GenericReader.Read into a
// destination slice that is reused between calls (the usual read loop) does
// not replace a map field: the entries of the row read by the previous call
// stay in the map, so row {c:3} reads back as {a:1 b:2 c:3}. Slices and
// pointers of a reused destination are replaced correctly; only maps leak.
//
// Run from the repository root:
//   go test -vet=off -count=1 -timeout 600s -run TestPreexisting4 .

import (
	"bytes"
	"reflect"
	"testing"

	"github.com/parquet-go/parquet-go"
)

func TestD93ReusedMapDestination(t *testing.T) {
	type row struct {
		M map[string]int64 `parquet:"m"`
	}
	rows := []row{
		{M: map[string]int64{"a": 1, "b": 2}},
		{M: map[string]int64{"c": 3}},
		{M: map[string]int64{}},
		{M: map[string]int64{"d": 4}},
	}
	buf := new(bytes.Buffer)
	w := parquet.NewGenericWriter[row](buf)
	if _, err := w.Write(rows); err != nil {
		t.Fatal(err)
	}
	if err := w.Close(); err != nil {
		t.Fatal(err)
	}

	r := parquet.NewGenericReader[row](bytes.NewReader(buf.Bytes()))
	defer r.Close()
	out := make([]row, 1) // reused by every Read call
	for i := range rows {
		n, err := r.Read(out)
		if n != 1 {
			t.Fatalf("row %d: n=%d err=%v", i, n, err)
		}
		if len(rows[i].M) == 0 && len(out[0].M) == 0 {
			continue
		}
		if !reflect.DeepEqual(out[0].M, rows[i].M) {
			t.Errorf("row %d: got %v want %v", i, out[0].M, rows[i].M)
		}
	}
}
