package scratch

import (
	"bytes"
	"testing"

	"github.com/parquet-go/parquet-go"
)

type RD21 struct {
	A int64  `parquet:"a"`
	S string `parquet:"s"`
}

type keysD21 struct{}

func (keysD21) FooterKey([]byte) ([]byte, error)           { return []byte("0123456789abcdef"), nil }
func (keysD21) ColumnKey([]string, []byte) ([]byte, error) { return []byte("0123456789abcdef"), nil }

// D21 (C18): a row group written through BeginRowGroup()/Commit() on a writer
// configured WithEncryption is stored in PLAINTEXT (its column writers never get a
// key), and the resulting file cannot be read back.
func TestD21BeginRowGroupWithEncryption(t *testing.T) {
	for _, encFooter := range []bool{true, false} {
		cfg := &parquet.EncryptionConfig{FooterKey: []byte("0123456789abcdef"), EncryptedFooter: encFooter}
		var buf bytes.Buffer
		w := parquet.NewGenericWriter[RD21](&buf, parquet.WithEncryption(cfg))
		rg := w.BeginRowGroup()
		marker := []byte("SECRET-PLAINTEXT-MARKER")
		rows := []parquet.Row{{parquet.Int64Value(1).Level(0, 0, 0), parquet.ByteArrayValue(marker).Level(0, 0, 1)}}
		if _, err := rg.WriteRows(rows); err != nil {
			t.Fatal(err)
		}
		_, commitErr := rg.Commit()
		closeErr := w.Close()
		if commitErr != nil || closeErr != nil {
			// refusing is fine; leaking is not
			if bytes.Contains(buf.Bytes(), marker) {
				t.Errorf("encryptedFooter=%v: an error was reported (%v / %v) but the plaintext is in the output", encFooter, commitErr, closeErr)
			}
			continue
		}
		if bytes.Contains(buf.Bytes(), marker) {
			t.Errorf("encryptedFooter=%v: the value of an encrypted file's column is readable in the output bytes", encFooter)
		}
		f, err := parquet.OpenFile(bytes.NewReader(buf.Bytes()), int64(buf.Len()), parquet.WithDecryption(keysD21{}))
		if err != nil {
			t.Errorf("encryptedFooter=%v: open: %v", encFooter, err)
			continue
		}
		r := parquet.NewGenericReader[RD21](f)
		out := make([]RD21, 3)
		if n, err := r.Read(out); n != 1 || out[0].S != string(marker) {
			t.Errorf("encryptedFooter=%v: read %d rows (%v), want the row written", encFooter, n, err)
		}
	}
}
