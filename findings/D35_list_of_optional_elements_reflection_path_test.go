package scratch

import (
	"bytes"
	"fmt"
	"testing"

	"github.com/parquet-go/parquet-go"
)

type InnerD35 struct {
	X int64 `parquet:"x"`
}

type RD35 struct {
	L []*InnerD35 `parquet:"l,list"`
}

type RD35b struct {
	L []*int64 `parquet:"l,list"`
}

func rowsD35[T any](t *testing.T, typed bool, vals []T) string {
	defer func() {
		if p := recover(); p != nil {
			t.Errorf("typed=%v: panic: %v", typed, p)
		}
	}()
	var out bytes.Buffer
	if typed {
		w := parquet.NewGenericWriter[T](&out)
		if _, err := w.Write(vals); err != nil {
			t.Fatal(err)
		}
		if err := w.Close(); err != nil {
			t.Fatal(err)
		}
	} else {
		w := parquet.NewWriter(&out, parquet.SchemaOf(vals[0]))
		for i := range vals {
			if err := w.Write(&vals[i]); err != nil {
				t.Fatal(err)
			}
		}
		if err := w.Close(); err != nil {
			t.Fatal(err)
		}
	}
	f, err := parquet.OpenFile(bytes.NewReader(out.Bytes()), int64(out.Len()))
	if err != nil {
		t.Fatal(err)
	}
	s := ""
	r := f.RowGroups()[0].Rows()
	defer r.Close()
	buf := make([]parquet.Row, 10)
	for {
		n, err := r.ReadRows(buf)
		for _, row := range buf[:n] {
			s += "["
			for _, v := range row {
				s += fmt.Sprintf("%+v ", v)
			}
			s += "] "
		}
		if err != nil {
			return s
		}
	}
}

// D35 (C03): the reflection path (Writer.Write(any), Schema.Deconstruct) shredded a
// LIST whose element is optional (a slice of pointers) as if the element were
// required: the element's own definition level was dropped, so every element of a
// []*struct came out null and a []*int64 panicked, while the typed GenericWriter
// stores the values.  (The reading side, reconstructFuncOfList, already had the
// special case.)
func TestD35ListOfOptionalElements(t *testing.T) {
	one, three := int64(1), int64(3)
	structs := []RD35{{L: []*InnerD35{{X: 1}, nil, {X: 0}}}, {}}
	if typed, refl := rowsD35(t, true, structs), rowsD35(t, false, structs); typed != refl {
		t.Errorf("[]*struct list:\n typed:      %s\n reflection: %s", typed, refl)
	}
	ints := []RD35b{{L: []*int64{&one, nil, &three}}, {}, {L: []*int64{nil}}}
	if typed, refl := rowsD35(t, true, ints), rowsD35(t, false, ints); typed != refl {
		t.Errorf("[]*int64 list:\n typed:      %s\n reflection: %s", typed, refl)
	}
}
