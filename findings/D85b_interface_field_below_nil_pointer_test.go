package scratch

// D85b (C03/C01): failed before the fix commit; see known_findings.json.
// An interface-typed field below a nil pointer got no value at all on the typed path:
// the column came out with fewer values than rows and later rows shifted.

import (
	"testing"

	"github.com/parquet-go/parquet-go"
)

type inner struct {
	X any `parquet:"x"`
}
type prow struct {
	ID int64  `parquet:"id"`
	P  *inner `parquet:"p"`
}

func TestD85bInterfaceFieldBelowNilPointer(t *testing.T) {
	schema := parquet.NewSchema("root", parquet.Group{
		"id": parquet.Leaf(parquet.Int64Type),
		"p":  parquet.Optional(parquet.Group{"x": parquet.Optional(parquet.Leaf(parquet.Int64Type))}),
	})
	rows := []prow{{ID: 1}, {ID: 2, P: &inner{X: int64(5)}}, {ID: 3}, {ID: 4, P: &inner{}}}
	buf := parquet.NewGenericBuffer[prow](schema)
	if _, err := buf.Write(rows); err != nil {
		t.Fatal(err)
	}
	r := buf.Rows()
	defer r.Close()
	got := make([]parquet.Row, 4)
	n, _ := r.ReadRows(got)
	for i := 0; i < n; i++ {
		want := schema.Deconstruct(nil, &rows[i])
		if !got[i].Equal(want) {
			t.Errorf("row %d: typed %+v deconstruct %+v", i, got[i], want)
		}
	}
	if n != 4 {
		t.Errorf("read %d rows", n)
	}
}
