package scratch

// D79b (C05/C06): failed before the fix commit; see known_findings.json.

import (
	"bytes"
	"testing"

	"github.com/parquet-go/parquet-go"
)

type pre3Row struct {
	V *int32 `parquet:"v,optional"`
}

func pre3File(t *testing.T, values []*int32) *parquet.File {
	t.Helper()
	var buf bytes.Buffer
	w := parquet.NewGenericWriter[pre3Row](&buf, parquet.PageBufferSize(16))
	rows := make([]pre3Row, len(values))
	for i, v := range values {
		rows[i].V = v
	}
	// write one row at a time so that the tiny page buffer splits pages
	for i := range rows {
		if _, err := w.Write(rows[i : i+1]); err != nil {
			t.Fatal(err)
		}
	}
	if err := w.Close(); err != nil {
		t.Fatal(err)
	}
	f, err := parquet.OpenFile(bytes.NewReader(buf.Bytes()), int64(buf.Len()))
	if err != nil {
		t.Fatal(err)
	}
	if n := len(f.RowGroups()); n != 1 {
		t.Fatalf("expected 1 row group, got %d", n)
	}
	return f
}

func pre3Ints(from, to int32) []*int32 {
	var out []*int32
	step := int32(1)
	if to < from {
		step = -1
	}
	for v := from; v != to+step; v += step {
		x := v
		out = append(out, &x)
	}
	return out
}

// multiColumnIndex.IsDescending compares the min of the FIRST page of a chunk
// with the max of the LAST page of the next chunk, which are the two extremes
// the furthest apart: the check passes although the second chunk starts above
// the end of the first one.
func TestD79bMultiColumnIndexDescendingBoundary(t *testing.T) {
	a := pre3File(t, pre3Ints(40, 1))
	b := pre3File(t, pre3Ints(60, 21))

	m := parquet.MultiRowGroup(a.RowGroups()[0], b.RowGroups()[0])
	chunk := m.ColumnChunks()[0]
	index, err := chunk.ColumnIndex()
	if err != nil {
		t.Fatal(err)
	}
	t.Logf("pages=%d ascending=%v descending=%v", index.NumPages(), index.IsAscending(), index.IsDescending())
	if index.IsDescending() {
		for i := 1; i < index.NumPages(); i++ {
			if chunk.Type().Compare(index.MinValue(i-1), index.MinValue(i)) < 0 {
				t.Fatalf("index claims descending order but min of page %d (%v) is above min of page %d (%v)", i, index.MinValue(i), i-1, index.MinValue(i-1))
			}
		}
	}
}
