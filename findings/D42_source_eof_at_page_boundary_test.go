package scratch

import (
	"bytes"
	"fmt"
	"io"
	"testing"

	"github.com/parquet-go/parquet-go"
)

type RD42 struct {
	ID   int64  `parquet:"id"`
	Name string `parquet:"name"`
}

// eofAt is a source that claims the full size but has nothing beyond cut: reads that
// cross it are short and report io.EOF (a truncated object behind a stale size).
type eofAt struct {
	data []byte
	cut  int64
}

func (r *eofAt) ReadAt(p []byte, off int64) (int, error) {
	if off >= r.cut {
		return 0, io.EOF
	}
	n := copy(p, r.data[off:r.cut])
	if n < len(p) {
		return n, io.EOF
	}
	return n, nil
}

// D42 (C14): when the source runs dry exactly where a page header starts, the page
// reader saw a plain io.EOF and took it for the end of the column chunk: the rows of
// the chunk silently went missing (0 of 200 rows and a clean io.EOF when the data of
// the first chunk is gone).  At any other cut a read inside a page fails loudly.
func TestD42SourceEOFAtPageBoundary(t *testing.T) {
	rows := make([]RD42, 200)
	for i := range rows {
		rows[i] = RD42{ID: int64(i), Name: fmt.Sprintf("name-%d", i)}
	}
	var out bytes.Buffer
	w := parquet.NewGenericWriter[RD42](&out, parquet.PageBufferSize(256))
	w.Write(rows)
	if err := w.Close(); err != nil {
		t.Fatal(err)
	}
	data := out.Bytes()
	f, err := parquet.OpenFile(bytes.NewReader(data), int64(len(data)), parquet.SkipPageIndex(true), parquet.SkipBloomFilters(true))
	if err != nil {
		t.Fatal(err)
	}
	// every cut between the start of the first column chunk and the end of the last
	first := f.Metadata().RowGroups[0].Columns[0].MetaData
	last := f.Metadata().RowGroups[0].Columns[1].MetaData
	silent := 0
	for cut := first.DataPageOffset; cut < last.DataPageOffset+last.TotalCompressedSize; cut++ {
		src := &eofAt{data: data, cut: int64(len(data))}
		f, err := parquet.OpenFile(src, int64(len(data)), parquet.SkipPageIndex(true), parquet.SkipBloomFilters(true))
		if err != nil {
			t.Fatal(err)
		}
		src.cut = cut // the footer has been read; from now on the data ends at cut
		r := parquet.NewGenericReader[RD42](f)
		got := make([]RD42, 300)
		n, err := r.Read(got)
		r.Close()
		if (err == nil || err == io.EOF) && n != len(rows) {
			silent++
			if silent <= 3 {
				t.Logf("source ends at byte %d: read %d of %d rows, err=%v", cut, n, len(rows), err)
			}
		}
	}
	if silent > 0 {
		t.Errorf("%d cut points made rows disappear without an error", silent)
	}
}

type readerAtFunc func(p []byte, off int64) (int, error)

func (f readerAtFunc) ReadAt(p []byte, off int64) (int, error) { return f(p, off) }
