package scratch

// D97 (C04): failed (panicked) before the fix commit; see known_findings.json.

// Pre-existing (unchanged tree), marginal. Place in encoding/plain and run:
//   go test -vet=off -count=1 -timeout 120s -run TestD97FixedLenByteArraySizeZero ./encoding/plain/
//
// PLAIN.EncodeFixedLenByteArray accepts size 0 (it only rejects size < 0 and
// size > MaxFixedLenByteArraySize) but PLAIN.DecodeFixedLenByteArray, which
// performs the same argument check, then evaluates len(src) % size and panics
// with "integer divide by zero" instead of returning the (empty) sequence or
// an error. DELTA_BYTE_ARRAY.EncodeFixedLenByteArray panics the same way;
// BYTE_STREAM_SPLIT rejects size 0 with ErrInvalidArgument.

import (
	"testing"

	"github.com/parquet-go/parquet-go/encoding"
	"github.com/parquet-go/parquet-go/encoding/delta"
	"github.com/parquet-go/parquet-go/encoding/plain"
)

func TestD97FixedLenByteArraySizeZero(t *testing.T) {
	for _, e := range []encoding.Encoding{new(plain.Encoding), new(delta.ByteArrayEncoding)} {
		func() {
			defer func() {
				if r := recover(); r != nil {
					t.Errorf("%s: FIXED_LEN_BYTE_ARRAY of size 0: panic: %v", e, r)
				}
			}()
			encoded, err := e.EncodeFixedLenByteArray(nil, nil, 0)
			if err != nil {
				return // rejecting the argument is fine
			}
			if _, err := e.DecodeFixedLenByteArray(nil, encoded, 0); err != nil {
				return
			}
		}()
	}
}
