package scratch

import (
	"sort"
	"testing"

	"github.com/parquet-go/parquet-go"
)

type RD50 struct {
	L  []int64 `parquet:"l"`
	ID int64   `parquet:"id"`
}

// D50 (C10): repeatedColumnBuffer.Less walked the two rows' levels element by element
// but always compared the values at the rows' FIRST positions (the base offsets were
// re-read on every iteration instead of advancing past the values already compared),
// so lists sharing their first element were ordered by length only: a Buffer sorted
// on a repeated column disagreed with Schema.Comparator and with RowBuffer.
func TestD50RepeatedColumnLess(t *testing.T) {
	sorting := parquet.SortingRowGroupConfig(parquet.SortingColumns(parquet.Ascending("l")))
	buf := parquet.NewGenericBuffer[RD50](sorting)
	buf.Write([]RD50{{[]int64{1, 3}, 0}, {[]int64{1, 2}, 1}, {[]int64{1, 1}, 2}, {[]int64{1, 2, 0}, 3}, {[]int64{0, 9}, 4}})
	sort.Sort(buf)
	rows := buf.Rows()
	defer rows.Close()
	got := make([]parquet.Row, 8)
	n, _ := rows.ReadRows(got)
	cmp := buf.Schema().Comparator(parquet.Ascending("l"))
	for i := 1; i < n; i++ {
		if cmp(got[i-1], got[i]) > 0 {
			t.Errorf("after sort.Sort rows %d and %d are out of order for Schema.Comparator: %v then %v", i-1, i, got[i-1], got[i])
		}
	}
}
