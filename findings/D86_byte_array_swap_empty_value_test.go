package scratch

// D86 (C10): failed before the fix commit; see known_findings.json.

// PRE-EXISTING (fails on the UNCHANGED tree, independent of patch.diff).
//
// Place in the repository root and run:
//   GOFLAGS=-mod=mod GOPROXY=off go test -vet=off -count=1 -timeout 600s -run TestPreexisting1 .
//
// byteArrayColumnBuffer.Swap exchanges the (offset, length) pairs of two rows
// and byteArrayColumnBuffer.page() only compacts the values when the offsets
// are no longer in ascending order (orderOfUint32(offsets) < 1); otherwise it
// rebuilds the page from the offsets alone and ignores the lengths. An empty
// byte array shares its offset with the value written right after it, so when
// sorting only exchanges such rows (and leaves every other row where it was)
// the offsets are still ascending, the swap of that column is lost, and the
// rows come out with the string column of the two rows exchanged: the sorted
// buffer is no longer a permutation of intact rows.

import (
	"io"
	"sort"
	"testing"

	"github.com/parquet-go/parquet-go"
)

type preexisting1Row struct {
	K int64  `parquet:"k"`
	S string `parquet:"s"`
}

func TestD86EmptyStringSwap(t *testing.T) {
	tests := []struct {
		name string
		in   []preexisting1Row
		want []preexisting1Row
	}{
		{
			name: "two-rows",
			in:   []preexisting1Row{{K: 2, S: ""}, {K: 1, S: "a"}},
			want: []preexisting1Row{{K: 1, S: "a"}, {K: 2, S: ""}},
		},
		{
			name: "nearly-sorted",
			in:   []preexisting1Row{{K: 1, S: "x"}, {K: 2, S: "y"}, {K: 4, S: ""}, {K: 3, S: "z"}, {K: 5, S: "w"}},
			want: []preexisting1Row{{K: 1, S: "x"}, {K: 2, S: "y"}, {K: 3, S: "z"}, {K: 4, S: ""}, {K: 5, S: "w"}},
		},
	}

	for _, test := range tests {
		t.Run(test.name, func(t *testing.T) {
			buf := parquet.NewGenericBuffer[preexisting1Row](
				parquet.SortingRowGroupConfig(parquet.SortingColumns(parquet.Ascending("k"))),
			)
			if _, err := buf.Write(test.in); err != nil {
				t.Fatal(err)
			}
			sort.Sort(buf)

			r := parquet.NewGenericRowGroupReader[preexisting1Row](buf)
			got := make([]preexisting1Row, len(test.in)+1)
			n, err := r.Read(got)
			if err != nil && err != io.EOF {
				t.Fatal(err)
			}
			got = got[:n]
			if len(got) != len(test.want) {
				t.Fatalf("got %d rows, want %d", len(got), len(test.want))
			}
			for i := range got {
				if got[i] != test.want[i] {
					t.Errorf("row %d: got %+v, want %+v", i, got[i], test.want[i])
				}
			}
		})
	}
}
