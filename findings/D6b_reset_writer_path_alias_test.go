package scratch

import (
	"bytes"
	"testing"

	"github.com/parquet-go/parquet-go"
)

type Named struct {
	Name string `parquet:"name"`
}

// D6b (C17): a writer reused through Reset must produce the same bytes as a fresh one.
func TestD6bResetWriterProducesIdenticalFile(t *testing.T) {
	rows := []Named{{"a"}, {"b"}, {"c"}}
	write := func(w *parquet.GenericWriter[Named]) {
		if _, err := w.Write(rows); err != nil {
			t.Fatal(err)
		}
		if err := w.Close(); err != nil {
			t.Fatal(err)
		}
	}
	var first bytes.Buffer
	w := parquet.NewGenericWriter[Named](&first)
	write(w)
	var second bytes.Buffer
	w.Reset(&second)
	write(w)
	if !bytes.Equal(first.Bytes(), second.Bytes()) {
		t.Errorf("file written after Reset differs from the first one (%d vs %d bytes)", first.Len(), second.Len())
	}
	f, err := parquet.OpenFile(bytes.NewReader(second.Bytes()), int64(second.Len()))
	if err != nil {
		t.Fatal(err)
	}
	if p := f.Metadata().RowGroups[0].Columns[0].MetaData.PathInSchema; len(p) != 1 || p[0] != "name" {
		t.Errorf("path_in_schema of the second file is %q", p)
	}
}
