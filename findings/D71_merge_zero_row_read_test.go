package scratch

import (
	"fmt"
	"io"
	"testing"

	"github.com/parquet-go/parquet-go"
)

// D71 (C09): failed before the fix commit; see known_findings.json.
//
// A RowReader that is allowed (io.Reader style) to return (0, nil) once in the
// middle of its stream: "nothing read this time, try again". The RowReader
// documentation does not forbid it and DedupeRowReader explicitly retries on
// it, but MergeRowReaders treats the empty refill as one buffered row and
// emits whatever row was left at the head of its buffer a second time (or a
// nil row when it happens on the very first read).
type c09StallingReader struct {
	keys    []int64
	src     int64
	pos     int
	stallAt int
	stalled bool
}

func (r *c09StallingReader) ReadRows(rows []parquet.Row) (int, error) {
	if r.pos == len(r.keys) {
		return 0, io.EOF
	}
	if r.pos >= r.stallAt && !r.stalled {
		r.stalled = true
		return 0, nil
	}
	n := 0
	for n < len(rows) && r.pos < len(r.keys) {
		rows[n] = append(rows[n][:0],
			parquet.ValueOf(r.keys[r.pos]).Level(0, 0, 0),
			parquet.ValueOf(r.src).Level(0, 0, 1),
			parquet.ValueOf(int64(r.pos)).Level(0, 0, 2))
		r.pos++
		n++
	}
	return n, nil
}

func TestD71MergeZeroRowRead(t *testing.T) {
	compare := func(a, b parquet.Row) int {
		// tolerate empty rows so that the test reports instead of panicking
		switch {
		case len(a) == 0 && len(b) == 0:
			return 0
		case len(a) == 0:
			return -1
		case len(b) == 0:
			return 1
		}
		x, y := a[0].Int64(), b[0].Int64()
		switch {
		case x < y:
			return -1
		case x > y:
			return 1
		}
		return 0
	}
	seq := func(start, n, step int64) []int64 {
		keys := make([]int64, n)
		for i := range keys {
			keys[i] = start + int64(i)*step
		}
		return keys
	}

	for _, numReaders := range []int{2, 3} {
		for _, stallAt := range []int{0, 24} {
			t.Run(fmt.Sprintf("readers=%d/stallAt=%d", numReaders, stallAt), func(t *testing.T) {
				readers := make([]parquet.RowReader, numReaders)
				total := 0
				for i := range readers {
					r := &c09StallingReader{keys: seq(int64(i), 100, int64(numReaders)), src: int64(i), stallAt: 1 << 30}
					if i == 0 {
						r.stallAt = stallAt
					}
					total += len(r.keys)
					readers[i] = r
				}
				m := parquet.MergeRowReaders(readers, compare)
				buf := make([]parquet.Row, 10)
				next := make([]int64, numReaders)
				count := 0
				for iter := 0; iter < 100000; iter++ {
					n, err := m.ReadRows(buf)
					for _, row := range buf[:n] {
						if len(row) != 3 {
							t.Fatalf("output row %d has %d values: %v", count, len(row), row)
						}
						src, pos := row[1].Int64(), row[2].Int64()
						if pos != next[src] {
							t.Fatalf("output row %d: input %d position %d, want %d (row duplicated or lost)", count, src, pos, next[src])
						}
						next[src]++
						count++
					}
					if err == io.EOF {
						break
					}
					if err != nil {
						t.Fatal(err)
					}
				}
				if count != total {
					t.Fatalf("merged %d rows, want %d", count, total)
				}
			})
		}
	}
}
