package scratch

import (
	"bytes"
	"fmt"
	"testing"

	"github.com/parquet-go/parquet-go"
)

type RD6 struct {
	S string `parquet:"s,dict"`
}

// D6 (C07): a dictionary column with a bloom filter whose dictionary outgrows
// DictionaryMaxBytes: values written in PLAIN pages after the fallback are
// reported absent by the filter.
func TestD6BloomDictionaryFallback(t *testing.T) {
	for _, extra := range [][]parquet.WriterOption{
		nil,
		{parquet.DataPageVersion(1)},
		{parquet.WithEncryption(&parquet.EncryptionConfig{FooterKey: []byte("0123456789abcdef")})},
	} {
		var buf bytes.Buffer
		opts := append([]parquet.WriterOption{parquet.BloomFilters(parquet.SplitBlockFilter(10, "s")), parquet.DictionaryMaxBytes(64), parquet.PageBufferSize(64)}, extra...)
		w := parquet.NewGenericWriter[RD6](&buf, opts...)
		var vals []string
		for i := 0; i < 200; i++ {
			v := fmt.Sprintf("value-%04d", i)
			vals = append(vals, v)
			if _, err := w.Write([]RD6{{v}}); err != nil {
				t.Fatal(err)
			}
		}
		if err := w.Close(); err != nil {
			t.Fatal(err)
		}
		f, err := parquet.OpenFile(bytes.NewReader(buf.Bytes()), int64(buf.Len()), parquet.WithDecryption(keysD6{}))
		if err != nil {
			t.Fatal(err)
		}
		bf := f.RowGroups()[0].ColumnChunks()[0].BloomFilter()
		if bf == nil {
			t.Fatal("no filter")
		}
		miss := 0
		for _, v := range vals {
			if ok, _ := bf.Check(parquet.ByteArrayValue([]byte(v))); !ok {
				miss++
			}
		}
		if miss != 0 {
			t.Errorf("%d of %d written values are reported absent by the bloom filter", miss, len(vals))
		}
		// and the rows still read back
		r := parquet.NewGenericReader[RD6](f)
		out := make([]RD6, 200)
		n, _ := r.Read(out)
		if n != 200 {
			t.Fatalf("read %d rows", n)
		}
		for i := range out {
			if out[i].S != vals[i] {
				t.Fatalf("row %d = %q", i, out[i].S)
			}
		}
	}
}

type keysD6 struct{}

func (keysD6) FooterKey([]byte) ([]byte, error)           { return []byte("0123456789abcdef"), nil }
func (keysD6) ColumnKey([]string, []byte) ([]byte, error) { return []byte("0123456789abcdef"), nil }
