package scratch

import (
	"bytes"
	"testing"

	"github.com/parquet-go/parquet-go/compress/gzip"
)

// D38 (C20): the stream codecs (gzip, brotli) construct or reset their reader inside
// the pool callbacks of compress.Decompressor.Decode, which reported a failure there
// with `panic(err) // Will be caught below` - but nothing recovered it.  Decoding
// something that is not a gzip stream therefore crashed the caller instead of
// failing, on a fresh codec and on one that had just round-tripped data.
func TestD38GzipDecodeGarbage(t *testing.T) {
	codec := new(gzip.Codec)
	x := bytes.Repeat([]byte("hello parquet "), 100)
	enc, err := codec.Encode(nil, x)
	if err != nil {
		t.Fatal(err)
	}
	if dec, err := codec.Decode(nil, enc); err != nil || !bytes.Equal(dec, x) {
		t.Fatalf("round trip: %v", err)
	}
	func() {
		defer func() {
			if p := recover(); p != nil {
				t.Errorf("Decode of an invalid stream panicked: %v", p)
			}
		}()
		if _, err := codec.Decode(nil, []byte("this is not compressed data at all")); err == nil {
			t.Errorf("Decode of an invalid stream returned no error")
		}
	}()
	// the codec still works afterwards
	if dec, err := codec.Decode(nil, enc); err != nil || !bytes.Equal(dec, x) {
		t.Errorf("round trip after a failed decode: %v", err)
	}
}
