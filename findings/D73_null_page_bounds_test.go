package scratch

// D73 (C02/C05): failed before the fix commit; see known_findings.json.
// Deviation from the format specification
// (no patch needed; lower severity than preexisting_1/2).
//
// Place in the repository root (package parquet_test) and run:
//
//	go test -vet=off -count=1 -timeout 600s -run TestD73NullPageBounds .
//
// parquet.thrift, ColumnIndex.null_pages: "If true, a page contains only null
// values, and writers have to set the corresponding entries in min_values and
// max_values to byte[0], so that all lists have the same length." For the
// fixed-width physical types the column indexers append the zero value of the
// type for a page without bounds, so the page index of an all-null page of an
// INT32 column carries min = max = 00 00 00 00 (a valid looking value 0)
// instead of empty byte strings.

import (
	"bytes"
	"encoding/binary"
	"testing"

	"github.com/parquet-go/parquet-go"
	"github.com/parquet-go/parquet-go/encoding/thrift"
	"github.com/parquet-go/parquet-go/format"
)

type c02Pre3Row struct {
	A *int32 `parquet:"a,optional"`
}

func TestD73NullPageBounds(t *testing.T) {
	rows := make([]c02Pre3Row, 2000)
	for i := 1000; i < len(rows); i++ {
		v := int32(i)
		rows[i].A = &v
	}
	var buf bytes.Buffer
	w := parquet.NewGenericWriter[c02Pre3Row](&buf, parquet.PageBufferSize(256))
	if _, err := w.Write(rows); err != nil {
		t.Fatal(err)
	}
	if err := w.Close(); err != nil {
		t.Fatal(err)
	}
	file := buf.Bytes()

	footerLen := int(binary.LittleEndian.Uint32(file[len(file)-8:]))
	meta := new(format.FileMetaData)
	if err := thrift.Unmarshal(new(thrift.CompactProtocol), file[len(file)-8-footerLen:len(file)-8], meta); err != nil {
		t.Fatal(err)
	}
	col := &meta.RowGroups[0].Columns[0]
	index := new(format.ColumnIndex)
	raw := file[col.ColumnIndexOffset : col.ColumnIndexOffset+int64(col.ColumnIndexLength)]
	if err := thrift.Unmarshal(new(thrift.CompactProtocol), raw, index); err != nil {
		t.Fatal(err)
	}
	nullPages := 0
	for i, isNull := range index.NullPages {
		if !isNull {
			continue
		}
		nullPages++
		if len(index.MinValues[i]) != 0 || len(index.MaxValues[i]) != 0 {
			t.Errorf("page %d is a null page but the column index has min_values=%x max_values=%x, the specification requires byte[0]",
				i, index.MinValues[i], index.MaxValues[i])
			break
		}
	}
	if nullPages == 0 {
		t.Fatal("scenario did not produce a null page")
	}
}
