package scratch

// D74 (C02): failed before the fix commit; see known_findings.json.
// Borderline: it needs the application to keep using a writer after one of its
// calls returned an error (a comment in ConcurrentRowGroupWriter.WriteRows says
// applications are not expected to), but Close then reports success.
//
// Place in the repository root (package parquet_test) and run:
//
//	go test -vet=off -count=1 -timeout 600s -run TestD74FailedWriteRowGroupLeavesPartialColumns .
//
// Writer.WriteRowGroup of a file-backed row group with a different codec
// re-encodes column by column (writer_reencode.go). When reading a source
// column fails midway (here: a corrupted page, detected by its CRC), the error
// is returned but the values already handed to the column writers stay in the
// current row group: column "a" holds all 1000 source rows, column "b" only the
// rows of the pages before the corrupted one. The application skips the bad
// input, writes more rows and closes the writer; Close succeeds and the file
// has a row group whose columns hold different numbers of rows.

import (
	"bytes"
	"encoding/binary"
	"testing"

	"github.com/parquet-go/parquet-go"
	"github.com/parquet-go/parquet-go/encoding/thrift"
	"github.com/parquet-go/parquet-go/format"
)

type c02Pre4Row struct {
	A int64 `parquet:"a"`
	B int64 `parquet:"b"`
}

func TestD74FailedWriteRowGroupLeavesPartialColumns(t *testing.T) {
	rows := make([]c02Pre4Row, 1000)
	for i := range rows {
		rows[i] = c02Pre4Row{A: int64(i), B: int64(-i)}
	}
	var src bytes.Buffer
	sw := parquet.NewGenericWriter[c02Pre4Row](&src, parquet.PageBufferSize(1024))
	if _, err := sw.Write(rows); err != nil {
		t.Fatal(err)
	}
	if err := sw.Close(); err != nil {
		t.Fatal(err)
	}
	data := src.Bytes()
	good, err := parquet.OpenFile(bytes.NewReader(data), int64(len(data)))
	if err != nil {
		t.Fatal(err)
	}
	md := good.Metadata().RowGroups[0].Columns[1].MetaData
	// Flip a byte in the body of the last data page of column "b".
	data[md.DataPageOffset+md.TotalCompressedSize-3] ^= 0xFF
	bad, err := parquet.OpenFile(bytes.NewReader(data), int64(len(data)))
	if err != nil {
		t.Fatal(err)
	}

	var dst bytes.Buffer
	w := parquet.NewGenericWriter[c02Pre4Row](&dst, parquet.Compression(&parquet.Snappy))
	if _, err := w.WriteRowGroup(bad.RowGroups()[0]); err == nil {
		t.Fatal("expected WriteRowGroup to report the corrupted source page")
	}
	// The application gives up on that input and carries on.
	if _, err := w.Write(rows[:10]); err != nil {
		t.Fatal(err)
	}
	if err := w.Close(); err != nil {
		t.Skipf("Close reported the problem: %v", err)
	}
	file := dst.Bytes()

	footerLen := int(binary.LittleEndian.Uint32(file[len(file)-8:]))
	meta := new(format.FileMetaData)
	if err := thrift.Unmarshal(new(thrift.CompactProtocol), file[len(file)-8-footerLen:len(file)-8], meta); err != nil {
		t.Fatal(err)
	}
	for i, rg := range meta.RowGroups {
		for j := range rg.Columns {
			// Both columns are required and flat: one value per row.
			if n := rg.Columns[j].MetaData.NumValues; n != rg.NumRows {
				t.Errorf("row group %d declares %d rows but column %v holds %d values",
					i, rg.NumRows, rg.Columns[j].MetaData.PathInSchema, n)
			}
		}
	}
}
