package main

// Contract files: comment-only Go files (`//go:build verif`) in the package
// directories of /repo, named contracts_verif.go.  Every directive is a `//@`
// comment line.  A trailing backslash continues a directive on the next `//@`
// line.

import (
	"bufio"
	"fmt"
	"os"
	"regexp"
	"strconv"
	"strings"
)

type Clause struct {
	Kind  string // requires ensures invariant decreases modifies loopmodifies assert
	Label string
	Loop  int
	Src   string
	E     *Expr
	Line  int
}

type Contract struct {
	File       string
	Line       int
	Pkg        string // import path
	Name       string // function name as written: Func, (*T).Method, T.Method, Outer$1, Gen[int32]
	Variant    string // "func F as V": a second specification of the same code, never used at call sites
	Ghosts     []specParam
	Props      []string
	Mode       Mode
	Tags       string // extra build tags the body must be loaded with ("" or "purego")
	Requires   []*Clause
	BoundedReq []*Clause // boundedrequires: extra admissibility condition of the bounded stand-in only (what call sites establish)
	Axiomatize []*Clause // definitional axioms of uninterpreted spec functions, assumed at entry (listed as assumptions)
	Ensures    []*Clause
	Invariants []*Clause
	Decreases  []*Clause
	Modifies   []*Clause
	LoopMods   []*Clause
	Pure       map[string]bool   // callee names (methods, func values, functions) treated as pure UFs
	FnSpecs    map[string]string // func-typed parameter -> spec name (total_preorder, pure)
	ModAll     bool // modifies *: frame unknown
	MayAlias   bool
	Trusted    bool // contract assumed; body not verified (assembly, external)
	Abstract   bool // abstracted mode: unknown constructs havoc
	NoOverflow bool // int mode: do not generate overflow obligations (listed as assumption)
	NoPanicOff bool // do not generate safety obligations
	KeepSafe   map[string]bool // nosafety except KIND...: safety obligations of these kinds (slice, index, nil, ...) are still generated
	NoPre      bool // callee preconditions are not obligations here; callee postconditions are assumed only under them
	Unroll     map[int]int
	Bounded    string
	Opaque     map[string]bool // struct types treated as opaque
	Hide       map[string]bool // spec functions applied as uninterpreted functions of (arguments, rows read)
	Asserts    []*Clause       // assert call=NAME#N label: expr  (checked right before the N-th call of NAME in source order)
	CallKeeps  map[string][]*Expr // callkeeps NAME e1 ; e2: memory regions an unmodelled callee NAME leaves unchanged (assumption)
	CallKeepSrc map[string][]string
	Ignore      map[string]bool     // ignore CALLEE.label: that postcondition of the callee's contract is not assumed at this function's call sites
	CallEnsures map[string][]*Clause // callensures NAME [label:] expr: assumed about the results (result0..) and arguments (arg0..) of an unmodelled callee
	Notes      []string
	Replay     string // "auto" | "none" | template name
	Timeout    int
}

type SpecFn struct {
	Pkg    string
	Name   string
	Params []specParam
	Ret    string
	Body   *Expr // nil => uninterpreted
	Src    string
	Rec    bool
}

type specParam struct{ Name, Type string }

type Axiom struct {
	Pkg, Name string
	E         *Expr
	Src       string
	Props     []string
}

type Lemma struct {
	Pkg, Name string
	Props     []string
	Mode      Mode
	Vars      []specParam
	Assumes   []*Clause
	Goals     []*Clause
	Uses      []string // axioms used
	Line      int
	File      string
}

type GhostVar struct {
	Pkg, Name, Type string
}

type ContractFile struct {
	Ghosts    []*GhostVar
	Path      string
	Pkg       string
	Contracts []*Contract
	Specs     []*SpecFn
	Axioms    []*Axiom
	Lemmas    []*Lemma
}

var labelRe = regexp.MustCompile(`^([A-Za-z_][A-Za-z0-9_\-]*):\s*(.*)$`)
var loopRe = regexp.MustCompile(`^loop=(\d+)\s*(.*)$`)

func splitTop(s string) []string {
	var out []string
	depth, start := 0, 0
	for i, c := range s {
		switch c {
		case '(', '[':
			depth++
		case ')', ']':
			depth--
		case ',':
			if depth == 0 {
				out = append(out, s[start:i])
				start = i + 1
			}
		}
	}
	if strings.TrimSpace(s[start:]) != "" {
		out = append(out, s[start:])
	}
	return out
}

func parseSpecParams(s string) ([]specParam, error) {
	var out []specParam
	s = strings.TrimSpace(s)
	if s == "" {
		return nil, nil
	}
	for _, part := range splitTop(s) {
		part = strings.TrimSpace(part)
		i := strings.IndexAny(part, " \t")
		if i < 0 {
			return nil, fmt.Errorf("bad parameter %q", part)
		}
		out = append(out, specParam{part[:i], strings.TrimSpace(part[i+1:])})
	}
	return out, nil
}

// parseSpecDecl parses `[rec] name(params) ret [= body]`.
func parseSpecDecl(rest string) (rec bool, name, params, ret, body string, ok bool) {
	rest = strings.TrimSpace(rest)
	if strings.HasPrefix(rest, "rec ") {
		rec = true
		rest = strings.TrimSpace(rest[4:])
	}
	i := strings.Index(rest, "(")
	if i <= 0 {
		return
	}
	name = rest[:i]
	depth := 0
	j := i
	for ; j < len(rest); j++ {
		if rest[j] == '(' {
			depth++
		} else if rest[j] == ')' {
			depth--
			if depth == 0 {
				break
			}
		}
	}
	if j >= len(rest) {
		return
	}
	params = rest[i+1 : j]
	tail := rest[j+1:]
	// the return type may itself contain no '=' ; body follows the first " = "
	if k := strings.Index(tail, " = "); k >= 0 {
		ret, body = strings.TrimSpace(tail[:k]), strings.TrimSpace(tail[k+3:])
	} else {
		ret = strings.TrimSpace(tail)
	}
	ok = true
	return
}

func ParseContractFile(path, pkg string) (*ContractFile, error) {
	f, err := os.Open(path)
	if err != nil {
		return nil, err
	}
	defer f.Close()
	cf := &ContractFile{Path: path, Pkg: pkg}
	sc := bufio.NewScanner(f)
	sc.Buffer(make([]byte, 1<<20), 1<<20)
	var lines []string
	var linenos []int
	n := 0
	cont := false
	for sc.Scan() {
		n++
		l := strings.TrimSpace(sc.Text())
		if !strings.HasPrefix(l, "//@") {
			cont = false
			continue
		}
		l = strings.TrimSpace(l[3:])
		if i := strings.Index(l, " //"); i >= 0 { // trailing comment
			l = strings.TrimSpace(l[:i])
		}
		if l == "" || strings.HasPrefix(l, "//") {
			continue
		}
		nextCont := strings.HasSuffix(l, "\\")
		if nextCont {
			l = strings.TrimSpace(strings.TrimSuffix(l, "\\"))
		}
		if cont {
			lines[len(lines)-1] += " " + l
		} else {
			lines = append(lines, l)
			linenos = append(linenos, n)
		}
		cont = nextCont
	}
	var cur *Contract
	var lem *Lemma
	fail := func(i int, f string, a ...any) error {
		return fmt.Errorf("%s:%d: %s", path, linenos[i], fmt.Sprintf(f, a...))
	}
	for i, l := range lines {
		word, rest, _ := strings.Cut(l, " ")
		rest = strings.TrimSpace(rest)
		mkClause := func(kind string, wantLoop bool) (*Clause, error) {
			c := &Clause{Kind: kind, Line: linenos[i]}
			r := rest
			if m := loopRe.FindStringSubmatch(r); m != nil {
				c.Loop, _ = strconv.Atoi(m[1])
				r = m[2]
			} else if wantLoop {
				return nil, fail(i, "%s needs loop=N", kind)
			}
			if m := labelRe.FindStringSubmatch(r); m != nil && !strings.HasPrefix(m[2], ":") {
				c.Label = m[1]
				r = m[2]
			}
			c.Src = r
			e, err := ParseExpr(r)
			if err != nil {
				return nil, fail(i, "%v", err)
			}
			c.E = e
			return c, nil
		}
		switch word {
		case "func":
			variant := ""
			if fn, v, ok := strings.Cut(rest, " as "); ok {
				rest, variant = strings.TrimSpace(fn), strings.TrimSpace(v)
			}
			cur = &Contract{File: path, Line: linenos[i], Pkg: pkg, Name: rest, Variant: variant, Pure: map[string]bool{}, FnSpecs: map[string]string{}, Unroll: map[int]int{}, Opaque: map[string]bool{}, Hide: map[string]bool{}, CallKeeps: map[string][]*Expr{}, CallKeepSrc: map[string][]string{}, CallEnsures: map[string][]*Clause{}, Replay: "auto"}
			cf.Contracts = append(cf.Contracts, cur)
			lem = nil
		case "lemma":
			lem = &Lemma{Pkg: pkg, Name: rest, Line: linenos[i], File: path}
			cf.Lemmas = append(cf.Lemmas, lem)
			cur = nil
		case "spec":
			// spec name(params) ret [= body]
			rec, sname, sparams, sret, sbody, ok := parseSpecDecl(rest)
			if !ok {
				return nil, fail(i, "bad spec declaration")
			}
			ps, err := parseSpecParams(sparams)
			if err != nil {
				return nil, fail(i, "%v", err)
			}
			sf := &SpecFn{Pkg: pkg, Name: sname, Params: ps, Ret: sret, Src: rest, Rec: rec}
			if sbody != "" {
				e, err := ParseExpr(sbody)
				if err != nil {
					return nil, fail(i, "%v", err)
				}
				sf.Body = e
			}
			cf.Specs = append(cf.Specs, sf)
		case "ghostvar":
			ws := strings.Fields(rest)
			if len(ws) != 2 {
				return nil, fail(i, "ghostvar <name> <type>")
			}
			cf.Ghosts = append(cf.Ghosts, &GhostVar{Pkg: pkg, Name: ws[0], Type: ws[1]})
		case "axiom":
			m := labelRe.FindStringSubmatch(rest)
			if m == nil {
				return nil, fail(i, "axiom needs a name")
			}
			e, err := ParseExpr(m[2])
			if err != nil {
				return nil, fail(i, "%v", err)
			}
			cf.Axioms = append(cf.Axioms, &Axiom{Pkg: pkg, Name: m[1], E: e, Src: m[2]})
		default:
			if lem != nil {
				switch word {
				case "property":
					lem.Props = strings.Fields(rest)
				case "mode":
					lem.Mode = parseMode(rest)
				case "vars":
					ps, err := parseSpecParams(rest)
					if err != nil {
						return nil, fail(i, "%v", err)
					}
					lem.Vars = append(lem.Vars, ps...)
				case "assume":
					c, err := mkClause("assume", false)
					if err != nil {
						return nil, err
					}
					lem.Assumes = append(lem.Assumes, c)
				case "show":
					c, err := mkClause("show", false)
					if err != nil {
						return nil, err
					}
					lem.Goals = append(lem.Goals, c)
				default:
					return nil, fail(i, "unknown lemma directive %q", word)
				}
				continue
			}
			if cur == nil {
				return nil, fail(i, "directive %q outside func/lemma", word)
			}
			switch word {
			case "property":
				cur.Props = strings.Fields(rest)
			case "mode":
				cur.Mode = parseMode(rest)
			case "tags":
				cur.Tags = rest
			case "boundedrequires":
				c, err := mkClause(word, false)
				if err != nil {
					return nil, err
				}
				cur.BoundedReq = append(cur.BoundedReq, c)
			case "axiomatize":
				c, err := mkClause(word, false)
				if err != nil {
					return nil, err
				}
				cur.Axiomatize = append(cur.Axiomatize, c)
			case "requires", "ensures", "modifies":
				if word == "modifies" && rest == "*" {
					cur.ModAll = true
					continue
				}
				c, err := mkClause(word, false)
				if err != nil {
					return nil, err
				}
				switch word {
				case "requires":
					cur.Requires = append(cur.Requires, c)
				case "ensures":
					cur.Ensures = append(cur.Ensures, c)
				case "modifies":
					cur.Modifies = append(cur.Modifies, c)
				}
			case "invariant", "decreases", "loopmodifies":
				c, err := mkClause(word, true)
				if err != nil {
					return nil, err
				}
				switch word {
				case "invariant":
					cur.Invariants = append(cur.Invariants, c)
				case "decreases":
					cur.Decreases = append(cur.Decreases, c)
				case "loopmodifies":
					cur.LoopMods = append(cur.LoopMods, c)
				}
			case "ghost":
				ps, err := parseSpecParams(rest)
				if err != nil {
					return nil, fail(i, "%v", err)
				}
				cur.Ghosts = append(cur.Ghosts, ps...)
			case "pure":
				for _, w := range strings.Fields(rest) {
					cur.Pure[w] = true
				}
			case "fnspec":
				ws := strings.Fields(rest)
				if len(ws) != 2 {
					return nil, fail(i, "fnspec <param> <spec>")
				}
				cur.FnSpecs[ws[0]] = ws[1]
			case "may_alias":
				cur.MayAlias = true
			case "trusted":
				cur.Trusted = true
				cur.Notes = append(cur.Notes, rest)
			case "abstract":
				cur.Abstract = true
			case "nooverflow":
				cur.NoOverflow = true
			case "nosafety":
				cur.NoPanicOff = true
				// `nosafety except slice index`: keep those kinds as obligations
				if f := strings.Fields(rest); len(f) > 1 && f[0] == "except" {
					if cur.KeepSafe == nil {
						cur.KeepSafe = map[string]bool{}
					}
					for _, kname := range f[1:] {
						cur.KeepSafe[kname] = true
					}
				}
			case "bounded":
				cur.Bounded = "yes"
			case "nopre":
				cur.NoPre = true
			case "assert":
				m := regexp.MustCompile(`^call=([^#\s]+)#(\d+)\s+(.*)$`).FindStringSubmatch(rest)
				if m == nil {
					// assert return=N: at the N-th return statement in source order
					if rm := regexp.MustCompile(`^return=(\d+)\s+(.*)$`).FindStringSubmatch(rest); rm != nil {
						m = []string{rest, "return$", rm[1], rm[2]}
					}
				}
				if m == nil {
					// assert back=N: at the end of every iteration of loop N (on each back
					// edge), where the variables of the loop body are in scope
					if bm := regexp.MustCompile(`^back=(\d+)\s+(.*)$`).FindStringSubmatch(rest); bm != nil {
						m = []string{rest, "back$", bm[1], bm[2]}
					}
				}
				if m == nil {
					// assert exit=N: on every edge that leaves loop N for the block its own
					// condition exits to (condition false, or break); returns inside the body
					// leave the loop elsewhere and are not concerned
					if em := regexp.MustCompile(`^exit=(\d+)\s+(.*)$`).FindStringSubmatch(rest); em != nil {
						m = []string{rest, "exit$", em[1], em[2]}
					}
				}
				if m == nil {
					return nil, fail(i, "assert call=NAME#N [label:] expr  |  assert return=N [label:] expr  |  assert back=N [label:] expr  |  assert exit=N [label:] expr")
				}
				c := &Clause{Kind: "assert", Line: linenos[i]}
				c.Loop, _ = strconv.Atoi(m[2])
				r := m[3]
				if lm := labelRe.FindStringSubmatch(r); lm != nil && !strings.HasPrefix(lm[2], ":") {
					c.Label = lm[1]
					r = lm[2]
				}
				c.Src = r
				e, err := ParseExpr(r)
				if err != nil {
					return nil, fail(i, "%v", err)
				}
				c.E = e
				c.Kind = "assert:" + m[1]
				cur.Asserts = append(cur.Asserts, c)
			case "callensures":
				name, ex, _ := strings.Cut(rest, " ")
				saved := rest
				rest = strings.TrimSpace(ex)
				c, err := mkClause("callensures", false)
				rest = saved
				if err != nil {
					return nil, err
				}
				cur.CallEnsures[name] = append(cur.CallEnsures[name], c)
			case "keepsall":
				// regions (over the parameters) that no unmodelled callee changes (assumption)
				for _, es := range strings.Split(rest, ";") {
					es = strings.TrimSpace(es)
					if es == "" {
						continue
					}
					e, err := ParseExpr(es)
					if err != nil {
						return nil, fail(i, "%v", err)
					}
					cur.CallKeeps["*"] = append(cur.CallKeeps["*"], e)
					cur.CallKeepSrc["*"] = append(cur.CallKeepSrc["*"], es)
				}
			case "callkeeps":
				name, exprs, _ := strings.Cut(rest, " ")
				for _, es := range strings.Split(exprs, ";") {
					es = strings.TrimSpace(es)
					if es == "" {
						continue
					}
					e, err := ParseExpr(es)
					if err != nil {
						return nil, fail(i, "%v", err)
					}
					cur.CallKeeps[name] = append(cur.CallKeeps[name], e)
					cur.CallKeepSrc[name] = append(cur.CallKeepSrc[name], es)
				}
				if _, ok := cur.CallKeeps[name]; !ok {
					cur.CallKeeps[name] = nil
				}
			case "hide":
				for _, w := range strings.Fields(rest) {
					cur.Hide[w] = true
				}
			case "ignore":
				// ignore CALLEE.label ...: do not assume those postconditions of callee
				// contracts here (the function is verified without them)
				if cur.Ignore == nil {
					cur.Ignore = map[string]bool{}
				}
				for _, w := range strings.Fields(rest) {
					cur.Ignore[w] = true
				}
			case "opaque":
				for _, w := range strings.Fields(rest) {
					cur.Opaque[w] = true
				}
			case "unroll":
				m := loopRe.FindStringSubmatch(rest)
				if m == nil {
					return nil, fail(i, "unroll loop=N k")
				}
				lp, _ := strconv.Atoi(m[1])
				k, _ := strconv.Atoi(strings.TrimSpace(m[2]))
				cur.Unroll[lp] = k
			case "replay":
				cur.Replay = rest
			case "timeout":
				cur.Timeout, _ = strconv.Atoi(rest)
			case "note":
				cur.Notes = append(cur.Notes, rest)
			default:
				return nil, fail(i, "unknown directive %q", word)
			}
		}
	}
	return cf, nil
}

type Mode int

const (
	ModeInt Mode = iota
	ModeBV
)

func parseMode(s string) Mode {
	if strings.TrimSpace(s) == "bv" {
		return ModeBV
	}
	return ModeInt
}

func (m Mode) String() string {
	if m == ModeBV {
		return "bv"
	}
	return "int"
}
