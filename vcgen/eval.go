package main

import (
	"golang.org/x/tools/go/ssa"
	"fmt"
	"go/token"
	"go/types"
	"math/big"
	"strings"
)

var tUntypedInt = types.Typ[types.UntypedInt]
var tUntypedNil = types.Typ[types.UntypedNil]

var binTok = map[string]token.Token{
	"+": token.ADD, "-": token.SUB, "*": token.MUL, "/": token.QUO, "%": token.REM,
	"&": token.AND, "|": token.OR, "^": token.XOR, "&^": token.AND_NOT, "<<": token.SHL, ">>": token.SHR,
	"==": token.EQL, "!=": token.NEQ, "<": token.LSS, "<=": token.LEQ, ">": token.GTR, ">=": token.GEQ,
	"&&": token.LAND, "||": token.LOR,
}

func (x *fx) evalBool(e *Expr, env *specEnv) (res string) {
	defer func() {
		if r := recover(); r != nil {
			if se, ok := r.(specErr); ok && !strings.Contains(string(se), " [in clause: ") {
				panic(specErr(string(se) + " [in clause: " + e.String() + "]"))
			}
			panic(r)
		}
	}()
	v := x.eval(e, env)
	if !isBool(v.T) {
		panic(specErr(fmt.Sprintf("expression %s is not boolean (type %s)", e, v.T)))
	}
	return v.S
}

type specErr string

func (s specErr) Error() string { return string(s) }

// typed materialises an untyped constant at type t.
func (x *fx) typed(v *Val, t types.Type) *Val {
	if !isUntyped(v.T) {
		return v
	}
	if v.T == tUntypedNil {
		return &Val{T: t, S: x.zero(t)}
	}
	if isUntyped(t) {
		t = tInt
	}
	if isFloat(t) {
		bi, _ := new(big.Int).SetString(v.S, 10)
		f, _ := new(big.Float).SetInt(bi).Float64()
		return &Val{T: t, S: x.floatConst(f, t)}
	}
	bi, ok := new(big.Int).SetString(v.S, 10)
	if !ok {
		panic(specErr("bad integer literal " + v.S))
	}
	return &Val{T: t, S: x.intConst(bi, t)}
}

func (x *fx) resolveType(name string, env *specEnv) types.Type {
	for _, b := range types.Typ {
		if b.Name() == name && b.Info()&types.IsUntyped == 0 {
			return b
		}
	}
	if name == "byte" {
		return tByte
	}
	if env.pkg != nil {
		if obj := env.pkg.Scope().Lookup(name); obj != nil {
			if tn, ok := obj.(*types.TypeName); ok {
				return tn.Type()
			}
		}
	}
	return nil
}

// parseTypeString resolves the small type syntax used in spec declarations.
func (x *fx) parseTypeString(s string, pkg *types.Package) types.Type {
	s = strings.TrimSpace(s)
	switch {
	case strings.HasPrefix(s, "func("):
		depth, j := 0, 4
		for ; j < len(s); j++ {
			if s[j] == '(' {
				depth++
			} else if s[j] == ')' {
				depth--
				if depth == 0 {
					break
				}
			}
		}
		var ps []*types.Var
		for _, p := range splitTop(s[5:j]) {
			ps = append(ps, types.NewVar(0, pkg, "", x.parseTypeString(p, pkg)))
		}
		var rs []*types.Var
		if r := strings.TrimSpace(s[j+1:]); r != "" {
			rs = append(rs, types.NewVar(0, pkg, "", x.parseTypeString(r, pkg)))
		}
		return types.NewSignatureType(nil, nil, nil, types.NewTuple(ps...), types.NewTuple(rs...), false)
	case strings.HasPrefix(s, "[]"):
		return types.NewSlice(x.parseTypeString(s[2:], pkg))
	case strings.HasPrefix(s, "*"):
		return types.NewPointer(x.parseTypeString(s[1:], pkg))
	case strings.HasPrefix(s, "["):
		i := strings.Index(s, "]")
		var n int64
		fmt.Sscanf(s[1:i], "%d", &n)
		return types.NewArray(x.parseTypeString(s[i+1:], pkg), n)
	}
	if i := strings.Index(s, "["); i > 0 && strings.HasSuffix(s, "]") && !strings.Contains(s[:i], ".") {
		// instantiated generic type: Name[T1, T2]
		if obj := pkg.Scope().Lookup(s[:i]); obj != nil {
			var targs []types.Type
			for _, a := range splitTop(s[i+1 : len(s)-1]) {
				targs = append(targs, x.parseTypeString(a, pkg))
			}
			if t, err := types.Instantiate(nil, obj.Type(), targs, false); err == nil {
				return t
			}
		}
		panic(specErr("unknown generic type " + s))
	}
	if pk, name, ok := strings.Cut(s, "."); ok {
		for _, imp := range pkg.Imports() {
			if imp.Name() == pk {
				if obj := imp.Scope().Lookup(name); obj != nil {
					return obj.Type()
				}
			}
		}
		panic(specErr("unknown type " + s))
	}
	if t := x.resolveType(s, &specEnv{pkg: pkg}); t != nil {
		return t
	}
	panic(specErr("unknown type " + s))
}

func (x *fx) eval(e *Expr, env *specEnv) *Val {
	switch e.Op {
	case "num":
		s := e.Num
		bi, ok := new(big.Int).SetString(s, 0)
		if !ok {
			panic(specErr("bad number " + s))
		}
		return &Val{T: tUntypedInt, S: bi.String()}
	case "id":
		switch e.Name {
		case "true", "false":
			return &Val{T: tBool, S: e.Name}
		case "nil":
			return &Val{T: tUntypedNil, S: "nil"}
		}
		if v, ok := env.bound[e.Name]; ok {
			return v
		}
		if v := env.look(e.Name); v != nil {
			return v
		}
		// ghost state variable
		if gv, ok := x.g.ghosts[e.Name]; ok {
			return x.ghostRead(gv, env.mem)
		}
		// package-level constant
		if env.pkg != nil {
			if obj := env.pkg.Scope().Lookup(e.Name); obj != nil {
				if c, ok := obj.(*types.Const); ok {
					return x.pkgConst(c)
				}
				// package-level function used as a value (compared with a function-typed argument)
				if fo, ok := obj.(*types.Func); ok {
					return &Val{T: fo.Type(), S: fmt.Sprint(x.g.funcIDByName(fo.FullName()))}
				}
			}
		}
		panic(specErr("unbound name " + e.Name))
	case "athead":
		// value of the operand at the head of the loop an `assert back=N` belongs to
		// (evaluated there, after the invariants were assumed: the start of the iteration)
		if v := x.atHead[e]; v != nil {
			return v
		}
		panic(specErr("athead() is only available inside assert back=N"))
	case "old":
		if env.old == nil {
			return x.eval(e.Args[0], env)
		}
		o := *env.old
		o.bound = env.bound
		o.old = &o
		// names that are not parameters (loop variables, results) keep their current value
		oldLook, curLook := env.old.look, env.look
		o.look = func(n string) *Val {
			if v := oldLook(n); v != nil {
				return v
			}
			return curLook(n)
		}
		r := x.eval(e.Args[0], &o)
		switch r.T.Underlying().(type) {
		case *types.Slice, *types.Pointer:
			// reads through an old(...) slice or pointer see the old memory
			c := *r
			c.M = o.mem
			return &c
		}
		return r
	case "cond":
		c := x.evalBool(e.Args[0], env)
		a, b := x.eval(e.Args[1], env), x.eval(e.Args[2], env)
		a, b = x.coerce(a, b)
		return &Val{T: a.T, S: fmt.Sprintf("(ite %s %s %s)", c, a.S, b.S)}
	case "un":
		v := x.eval(e.Args[0], env)
		switch e.Name {
		case "!":
			return &Val{T: tBool, S: not(v.S)}
		case "-":
			if isUntyped(v.T) {
				bi, _ := new(big.Int).SetString(v.S, 10)
				return &Val{T: tUntypedInt, S: bi.Neg(bi).String()}
			}
			return x.binop(token.SUB, &Val{T: v.T, S: x.zero(v.T)}, v, v.T, false)
		case "^":
			if x.mode == ModeBV {
				return &Val{T: v.T, S: "(bvnot " + v.S + ")"}
			}
		}
		panic(specErr("unary " + e.Name))
	case "bin":
		return x.evalBin(e, env)
	case "forall", "exists":
		return x.evalQuant(e, env)
	case "field":
		return x.evalField(e, env)
	case "index":
		return x.evalIndex(e, env)
	case "slice":
		s := x.eval(e.Args[0], env)
		var base, off, ln, cp string
		var rt types.Type
		switch u := s.T.Underlying().(type) {
		case *types.Slice:
			base, off, ln, cp = slBase(s.S), slOff(s.S), slLen(s.S), slCap(s.S)
			rt = s.T
		case *types.Basic:
			base, off, ln, cp = slBase(s.S), slOff(s.S), slLen(s.S), slLen(s.S)
			rt = s.T
		case *types.Pointer:
			a, ok := u.Elem().Underlying().(*types.Array)
			if !ok {
				panic(specErr("cannot slice " + s.T.String()))
			}
			base, off, ln, cp = ptrRef(s.S), ptrOff(s.S), x.idxConst(a.Len()), x.idxConst(a.Len())
			rt = types.NewSlice(a.Elem())
		default:
			panic(specErr("cannot slice " + s.T.String()))
		}
		lo, hi := x.idxConst(0), ln
		if e.Args[1] != nil {
			lo = x.toIdx(x.typed(x.eval(e.Args[1], env), tInt))
		}
		if e.Args[2] != nil {
			hi = x.toIdx(x.typed(x.eval(e.Args[2], env), tInt))
		}
		return &Val{T: rt, S: fmt.Sprintf("(mk-slice %s %s %s %s)", base, x.iadd(off, lo), x.isub(hi, lo), x.isub(cp, lo)), M: s.M}
	case "call":
		return x.evalCall(e, env)
	case "str":
		return x.stringConst(e.Name, types.Typ[types.String])
	}
	panic(specErr("cannot evaluate " + e.String()))
}

func (x *fx) coerce(a, b *Val) (*Val, *Val) {
	if isUntyped(a.T) && !isUntyped(b.T) {
		a = x.typed(a, b.T)
	} else if isUntyped(b.T) && !isUntyped(a.T) {
		b = x.typed(b, a.T)
	} else if isUntyped(a.T) && isUntyped(b.T) {
		a, b = x.typed(a, tInt), x.typed(b, tInt)
	}
	return a, b
}

func (x *fx) evalBin(e *Expr, env *specEnv) *Val {
	switch e.Name {
	case "==>":
		a := x.evalBool(e.Args[0], env)
		b := x.evalBool(e.Args[1], env)
		return &Val{T: tBool, S: "(=> " + a + " " + b + ")"}
	case "<==>":
		a := x.evalBool(e.Args[0], env)
		b := x.evalBool(e.Args[1], env)
		return &Val{T: tBool, S: "(= " + a + " " + b + ")"}
	}
	a, b := x.eval(e.Args[0], env), x.eval(e.Args[1], env)
	op := binTok[e.Name]
	if op == token.SHL || op == token.SHR {
		if isUntyped(a.T) {
			a = x.typed(a, tInt)
		}
		if isUntyped(b.T) {
			b = x.typed(b, a.T)
		}
		return x.binop(op, a, b, a.T, false)
	}
	if isUntyped(a.T) && isUntyped(b.T) && a.T != tUntypedNil {
		// constant folding on literals
		ai, _ := new(big.Int).SetString(a.S, 10)
		bi, _ := new(big.Int).SetString(b.S, 10)
		r := new(big.Int)
		switch op {
		case token.ADD:
			return &Val{T: tUntypedInt, S: r.Add(ai, bi).String()}
		case token.SUB:
			return &Val{T: tUntypedInt, S: r.Sub(ai, bi).String()}
		case token.MUL:
			return &Val{T: tUntypedInt, S: r.Mul(ai, bi).String()}
		}
	}
	a, b = x.coerce(a, b)
	if ia, ok := isInt(a.T); ok {
		if ib, ok2 := isInt(b.T); ok2 && ia.Kind() != ib.Kind() {
			// specs may mix integer types: in int mode they are all mathematical integers
			if x.mode == ModeBV {
				if intWidth(a.T) != intWidth(b.T) {
					panic(specErr(fmt.Sprintf("mixed integer widths in %s (%s vs %s); add a conversion", e, a.T, b.T)))
				}
			}
		}
	}
	return x.binop(op, a, b, a.T, false)
}

// firstIndexedBy finds the first sub-expression X[v] indexed by exactly the bound variable v.
func firstIndexedBy(e *Expr, v string) *Expr {
	if e == nil {
		return nil
	}
	if e.Op == "index" && e.Args[1].Op == "id" && e.Args[1].Name == v {
		if r := firstIndexedBy(e.Args[0], v); r != nil {
			return r
		}
		return e.Args[0]
	}
	if (e.Op == "forall" || e.Op == "exists") && e.Name == v {
		return nil
	}
	for _, a := range e.Args {
		if r := firstIndexedBy(a, v); r != nil {
			return r
		}
	}
	return nil
}

func mentions(e *Expr, v string) bool {
	if e == nil {
		return false
	}
	if e.Op == "id" && e.Name == v {
		return true
	}
	for _, a := range e.Args {
		if mentions(a, v) {
			return true
		}
	}
	return false
}

// indexedBases lists the distinct sub-expressions X with X[v] in e.
func indexedBases(e *Expr, v string, out *[]*Expr) {
	if e == nil {
		return
	}
	if (e.Op == "forall" || e.Op == "exists") && e.Name == v {
		return
	}
	if e.Op == "index" && e.Args[1].Op == "id" && e.Args[1].Name == v && !mentions(e.Args[0], v) {
		key := e.Args[0].String()
		dup := false
		for _, o := range *out {
			if o.String() == key {
				dup = true
			}
		}
		if !dup {
			*out = append(*out, e.Args[0])
		}
	}
	for _, a := range e.Args {
		indexedBases(a, v, out)
	}
}

// evalQuant translates a quantifier.  The bound variable is represented as an
// absolute row index of a slice it indexes, so that the select term carries a
// bare variable (a solver trigger without arithmetic).  When the body indexes
// several slices by the bound variable, one logically equivalent copy per
// slice is emitted and the copies are conjoined, so each row's select term can
// trigger the instantiation.
func (x *fx) evalQuant(e *Expr, env *specEnv) *Val {
	bodyE := e.Args[len(e.Args)-1]
	var bases []*Expr
	indexedBases(bodyE, e.Name, &bases)
	if len(bases) > 3 {
		bases = bases[:3]
	}
	var offs []string
	seen := map[string]bool{}
	for _, base := range bases {
		func() {
			defer func() { recover() }()
			b := x.eval(base, env)
			var off string
			switch u := b.T.Underlying().(type) {
			case *types.Slice:
				if arrScale(u.Elem()) == 1 {
					off = slOff(b.S)
				}
			case *types.Basic:
				if isString(b.T) {
					off = slOff(b.S)
				}
			case *types.Pointer:
				if a, ok := u.Elem().Underlying().(*types.Array); ok && arrScale(a.Elem()) == 1 && len(b.Path) == 0 {
					off = ptrOff(b.S)
				}
			}
			if off != "" && !seen[off] {
				seen[off] = true
				offs = append(offs, off)
			}
		}()
	}
	if len(offs) == 0 {
		offs = []string{""}
	}
	var variants []string
	for _, off := range offs {
		variants = append(variants, x.evalQuantWith(e, env, off))
	}
	return &Val{T: tBool, S: x.and(variants...)}
}

func (x *fx) evalQuantWith(e *Expr, env *specEnv, off string) string {
	q := e.Op
	name := "|" + e.Name + "|"
	bv := &Val{T: tInt, S: name}
	if off != "" {
		bv = &Val{T: tInt, S: x.isub(name, off), AbsIdx: name, AbsOff: off}
	}
	inner := env.withBound(e.Name, bv)
	x.boundNames = append(x.boundNames, name)
	defer func() { x.boundNames = x.boundNames[:len(x.boundNames)-1] }()
	var body string
	if len(e.Args) == 3 {
		lo := x.toIdx(x.typed(x.eval(e.Args[0], env), tInt))
		hi := x.toIdx(x.typed(x.eval(e.Args[1], env), tInt))
		rng := x.and(x.ile(lo, bv.S), x.ilt(bv.S, hi))
		p := x.evalBool(e.Args[2], inner)
		if q == "forall" {
			body = "(=> " + rng + " " + p + ")"
		} else {
			body = x.and(rng, p)
		}
	} else {
		body = x.evalBool(e.Args[0], inner)
	}
	return fmt.Sprintf("(%s ((%s %s)) %s)", q, name, x.idxSort(), body)
}

// rowIndex returns the absolute row index off+i, using the bound variable's
// absolute form when the offsets agree.
func (x *fx) rowIndex(off string, iv *Val) string {
	if iv.AbsIdx != "" && iv.AbsOff == off {
		return iv.AbsIdx
	}
	return x.iadd(off, x.toIdx(iv))
}

func (x *fx) evalField(e *Expr, env *specEnv) *Val {
	// package-qualified constant?
	if id := e.Args[0]; id.Op == "id" && env.pkg != nil && env.look(id.Name) == nil && env.bound[id.Name] == nil {
		for _, imp := range env.pkg.Imports() {
			if imp.Name() == id.Name {
				obj := imp.Scope().Lookup(e.Name)
				if c, ok := obj.(*types.Const); ok {
					return x.pkgConst(c)
				}
				// package-level variable (e.g. the sentinel io.EOF): its value in the environment's memory
				if v, ok := obj.(*types.Var); ok {
					if sp := x.fn.Prog.ImportedPackage(imp.Path()); sp != nil {
						if g, ok := sp.Members[v.Name()].(*ssa.Global); ok {
							r := x.load(env.mem, x.valOf(g))
							if types.IsInterface(r.T) && (strings.HasPrefix(g.Name(), "Err") || g.Name() == "EOF") {
								x.assume("(not (= " + r.S + " (mk-iface 0 0)))")
								x.assumptions["package-level sentinel error variables (ErrXxx, EOF) are non-nil"] = true
							}
							return r
						}
					}
				}
				panic(specErr("unknown constant " + id.Name + "." + e.Name))
			}
		}
	}
	v := x.eval(e.Args[0], env)
	t := v.T
	ptr, isPtr := t.Underlying().(*types.Pointer)
	if isPtr {
		t = ptr.Elem()
	}
	st, ok := t.Underlying().(*types.Struct)
	if !ok {
		panic(specErr(fmt.Sprintf("%s: %s is not a struct", e, v.T)))
	}
	idx := -1
	for i := 0; i < st.NumFields(); i++ {
		if st.Field(i).Name() == e.Name {
			idx = i
		}
	}
	if idx < 0 {
		// promoted field through embedded struct
		for i := 0; i < st.NumFields(); i++ {
			if st.Field(i).Embedded() {
				inner := &Expr{Op: "field", Name: st.Field(i).Name(), Args: []*Expr{e.Args[0]}}
				if et, ok := st.Field(i).Type().Underlying().(*types.Struct); ok {
					for k := 0; k < et.NumFields(); k++ {
						if et.Field(k).Name() == e.Name {
							return x.evalField(&Expr{Op: "field", Name: e.Name, Args: []*Expr{inner}}, env)
						}
					}
				}
			}
		}
		panic(specErr(fmt.Sprintf("%s: no field %s in %s", e, e.Name, t)))
	}
	ft := st.Field(idx).Type()
	if isPtr && v.M != nil {
		e2 := *env
		e2.mem = v.M
		env = &e2
	}
	if isPtr {
		if len(v.Path) > 0 {
			root := x.memRead(env.mem, x.fieldMemNameOf(v.Path[0]), ptrRef(v.S), ptrOff(v.S))
			cur := x.applyPath(root, v.Path[0].T, v.Path[1:])
			return &Val{T: ft, S: fmt.Sprintf("(%s %s)", x.selName(x.sortOf(t), e.Name, idx), cur)}
		}
		r := x.memRead(env.mem, x.fieldMemName(t, st, idx), ptrRef(v.S), ptrOff(v.S))
		return &Val{T: ft, S: r}
	}
	return &Val{T: ft, S: fmt.Sprintf("(%s %s)", x.selName(x.sortOf(t), e.Name, idx), v.S)}
}

func (x *fx) evalIndex(e *Expr, env *specEnv) *Val {
	s := x.eval(e.Args[0], env)
	iv := x.typed(x.eval(e.Args[1], env), tInt)
	if s.M != nil {
		e2 := *env
		e2.mem = s.M
		env = &e2
	}
	switch u := s.T.Underlying().(type) {
	case *types.Slice:
		if arrScale(u.Elem()) != 1 {
			return x.elemAt(env.mem, u.Elem(), slBase(s.S), x.iadd(slOff(s.S), x.toIdx(iv)))
		}
		return x.elemAt(env.mem, u.Elem(), slBase(s.S), x.rowIndex(slOff(s.S), iv))
	case *types.Basic:
		if isString(s.T) {
			return &Val{T: tByte, S: x.memRead(env.mem, x.memName(tByte), slBase(s.S), x.rowIndex(slOff(s.S), iv))}
		}
	case *types.Array:
		return &Val{T: u.Elem(), S: fmt.Sprintf("(select %s %s)", s.S, x.toIdx(iv))}
	case *types.Pointer:
		if a, ok := u.Elem().Underlying().(*types.Array); ok {
			if len(s.Path) > 0 {
				panic(specErr("index through interior pointer"))
			}
			if arrScale(a.Elem()) == 1 {
				return x.elemAt(env.mem, a.Elem(), ptrRef(s.S), x.rowIndex(ptrOff(s.S), iv))
			}
			return x.elemAt(env.mem, a.Elem(), ptrRef(s.S), x.iadd(ptrOff(s.S), x.arrOff(x.toIdx(iv), a.Elem())))
		}
	}
	panic(specErr(fmt.Sprintf("cannot index %s of type %s", e.Args[0], s.T)))
}

// elemAt reads the element of type et at (ref, off); for array elements it
// yields a pointer-like handle that can be indexed further.
func (x *fx) elemAt(m *memNode, et types.Type, ref, off string) *Val {
	if a, ok := et.Underlying().(*types.Array); ok {
		// element is itself an array: return a pointer to it so that s[i][j] works
		return &Val{T: types.NewPointer(et), S: fmt.Sprintf("(mk-ptr %s %s)", ref, x.arrOff(off, a))}
	}
	return &Val{T: et, S: x.loadAt(m, et, ref, off)}
}

func (x *fx) evalCall(e *Expr, env *specEnv) *Val {
	f := e.Args[0]
	args := e.Args[1:]
	if f.Op == "id" {
		switch f.Name {
		case "len", "cap":
			v := x.eval(args[0], env)
			switch u := v.T.Underlying().(type) {
			case *types.Slice, *types.Basic:
				if f.Name == "len" {
					return &Val{T: tInt, S: slLen(v.S)}
				}
				return &Val{T: tInt, S: slCap(v.S)}
			case *types.Array:
				return &Val{T: tInt, S: x.idxConst(u.Len())}
			case *types.Pointer:
				if a, ok := u.Elem().Underlying().(*types.Array); ok {
					return &Val{T: tInt, S: x.idxConst(a.Len())}
				}
			}
			panic(specErr("len of " + v.T.String()))
		case "min", "max":
			a, b := x.coerce(x.eval(args[0], env), x.eval(args[1], env))
			c := x.binop(token.LSS, a, b, tBool, false).S
			if f.Name == "max" {
				a, b = b, a
			}
			return &Val{T: a.T, S: fmt.Sprintf("(ite %s %s %s)", c, a.S, b.S)}
		case "base":
			v := x.eval(args[0], env)
			return &Val{T: tInt, S: x.refAsIdx(x.refOf(v))}
		case "fresh":
			// fresh(x): x was allocated by this activation (not reachable from the caller's state)
			// In a callee's postcondition assumed at a call site it is the callee's
			// activation: allocated during that call (at or above the allocation
			// pointer before the call, below it afterwards), so that two results
			// of two calls are known to be different objects.
			v := x.eval(args[0], env)
			if env.callSite && env.old != nil && env.old.top != "" && env.top != "" {
				r := x.refOf(v)
				return &Val{T: tBool, S: "(and (>= " + r + " " + env.old.top + ") (< " + r + " " + env.top + "))"}
			}
			return &Val{T: tBool, S: "(>= " + x.refOf(v) + " " + x.top0 + ")"}
		case "cell":
			// cell(v): the address of the memory cell of the source variable v (a
			// variable captured by a closure or address-taken lives in memory; when
			// different loads of it reach a program point no single value stands for
			// its name there).  deref(cell(v)) is its current value.
			if len(args) == 1 && args[0].Op == "id" {
				if v := x.allocNamed(args[0].Name); v != nil {
					return v
				}
				panic(specErr("unbound name " + args[0].Name))
			}
			panic(specErr("cell() takes the name of a variable"))
		case "deref":
			p := x.eval(args[0], env)
			if _, ok := p.T.Underlying().(*types.Pointer); !ok {
				// a captured variable is a pointer to its cell in the function's
				// entry environment but its loaded value inside the body
				return p
			}
			m := env.mem
			if p.M != nil {
				m = p.M
			}
			return x.load(m, p)
		case "startsAt":
			// startsAt(s, t, i): slice s begins at element i of slice t (same storage)
			a, b := x.eval(args[0], env), x.eval(args[1], env)
			i := x.toIdx(x.typed(x.eval(args[2], env), tInt))
			return &Val{T: tBool, S: x.and("(= "+slBase(a.S)+" "+slBase(b.S)+")", "(= "+slOff(a.S)+" "+x.iadd(slOff(b.S), i)+")")}
		case "disjoint":
			a, b := x.eval(args[0], env), x.eval(args[1], env)
			return &Val{T: tBool, S: "(not (= " + x.refOf(a) + " " + x.refOf(b) + "))"}
		case "isnan":
			v := x.eval(args[0], env)
			return &Val{T: tBool, S: "(fp.isNaN " + v.S + ")"}
		case "as":
			// as(v, "*T"): the dynamic value of interface v read as a T (meaningful
			// under typeis(v, "*T"), like the value of a checked type assertion)
			v := x.eval(args[0], env)
			tn := args[1].String()
			if args[1].Op == "str" {
				tn = strings.Trim(args[1].Name, "\"")
			}
			t := x.parseTypeString(tn, env.pkg)
			_, unbox := x.boxFuns(x.sortOf(t))
			return &Val{T: t, S: fmt.Sprintf("(%s (i-val %s))", unbox, v.S)}
		case "typeis":
			v := x.eval(args[0], env)
			tn := args[1].String()
			if args[1].Op == "str" {
				// typeis(v, "*T"): pointer and other composite type names as a string
				tn = strings.Trim(args[1].Name, "\"")
			}
			t := x.parseTypeString(tn, env.pkg)
			return &Val{T: tBool, S: fmt.Sprintf("(= (i-type %s) %d)", v.S, x.g.typeID(t))}
		}
		// conversion to a basic or named type
		if t := x.resolveType(f.Name, env); t != nil && len(args) == 1 && env.look(f.Name) == nil {
			v := x.eval(args[0], env)
			if isUntyped(v.T) {
				return x.typed(v, t)
			}
			_, fi := isInt(v.T)
			_, ti := isInt(t)
			if fi && ti {
				return &Val{T: t, S: x.convertInt(v.S, v.T, t)}
			}
			if x.sortOf(v.T) == x.sortOf(t) {
				return &Val{T: t, S: v.S}
			}
			panic(specErr(fmt.Sprintf("conversion %s(%s)", f.Name, v.T)))
		}
		// spec function
		if sf := x.g.lookupSpec(x.c.Pkg, f.Name); sf != nil {
			return x.applySpec(sf, args, env)
		}
		// function-typed variable: pure call
		if fv := env.look(f.Name); fv != nil {
			// a captured function variable is a pointer to its cell
			if pt, ok := fv.T.Underlying().(*types.Pointer); ok {
				if _, ok := pt.Elem().Underlying().(*types.Signature); ok {
					fv = x.load(env.mem, fv)
				}
			}
			if sig, ok := fv.T.Underlying().(*types.Signature); ok {
				var avs []*Val
				for i, a := range args {
					avs = append(avs, x.typed(x.eval(a, env), sig.Params().At(i).Type()))
				}
				return x.pureFnCall(fv, sig, avs)
			}
		}
		// package-level Go function declared pure in this contract
		if env.pkg != nil {
			if fo, ok := env.pkg.Scope().Lookup(f.Name).(*types.Func); ok && x.c.Pure[f.Name] {
				return x.pureGoFunc(fo, args, env)
			}
		}
		panic(specErr("unknown function " + f.Name))
	}
	if f.Op == "field" {
		if id := f.Args[0]; id.Op == "id" && env.pkg != nil && env.look(id.Name) == nil && env.bound[id.Name] == nil {
			for _, imp := range env.pkg.Imports() {
				if imp.Name() == id.Name {
					if fo, ok := imp.Scope().Lookup(f.Name).(*types.Func); ok && (x.c.Pure[f.Name] || x.c.Pure[id.Name+"."+f.Name]) {
						return x.pureGoFunc(fo, args, env)
					}
					if tn, ok := imp.Scope().Lookup(f.Name).(*types.TypeName); ok && len(args) == 1 {
						// conversion to a type of another package: format.Type(x)
						v := x.eval(args[0], env)
						t := tn.Type()
						if isUntyped(v.T) {
							return x.typed(v, t)
						}
						_, fi := isInt(v.T)
						_, ti := isInt(t)
						if fi && ti {
							return &Val{T: t, S: x.convertInt(v.S, v.T, t)}
						}
						if x.sortOf(v.T) == x.sortOf(t) {
							return &Val{T: t, S: v.S}
						}
						panic(specErr("conversion " + id.Name + "." + f.Name + " of " + v.T.String()))
					}
					panic(specErr("function " + id.Name + "." + f.Name + " is not declared pure in this contract"))
				}
			}
		}
		// call through a function-typed struct field: pure function value
		if fvv := x.tryEval(f, env); fvv != nil {
			if sig, ok := fvv.T.Underlying().(*types.Signature); ok {
				var avs []*Val
				for i, a := range args {
					avs = append(avs, x.typed(x.eval(a, env), sig.Params().At(i).Type()))
				}
				return x.pureFnCall(fvv, sig, avs)
			}
		}
		// method call on a value: pure method UF
		recv := x.eval(f.Args[0], env)
		var avs []*Val
		for _, a := range args {
			avs = append(avs, x.eval(a, env))
		}
		return x.pureMethod(recv, f.Name, avs, env.mem)
	}
	panic(specErr("cannot call " + f.String()))
}

func (x *fx) refAsIdx(ref string) string {
	if x.mode == ModeBV {
		panic(specErr("base() unsupported in bv mode"))
	}
	return ref
}

// pureMethod: recv.M(args) as an uninterpreted function of (recv, args).
func (x *fx) pureMethod(recv *Val, name string, args []*Val, m *memNode) *Val {
	var sel *types.Selection
	for _, rt := range []types.Type{recv.T, types.NewPointer(recv.T)} {
		ms := types.NewMethodSet(rt)
		for i := 0; i < ms.Len(); i++ {
			if ms.At(i).Obj().Name() == name {
				sel = ms.At(i)
			}
		}
		if sel != nil {
			break
		}
	}
	if sel == nil {
		if p, ok := recv.T.Underlying().(*types.Pointer); ok {
			_ = p
		}
		panic(specErr(fmt.Sprintf("no method %s on %s", name, recv.T)))
	}
	sig := sel.Type().(*types.Signature)
	fname := "|pure." + sanitize(types.TypeString(recv.T, nil)) + "." + name + "|"
	sorts := []string{x.sortOf(recv.T)}
	terms := []string{recv.S}
	for i, a := range args {
		a = x.typed(a, sig.Params().At(i).Type())
		sorts = append(sorts, x.sortOf(a.T))
		terms = append(terms, a.S)
	}
	if sig.Results().Len() != 1 {
		panic(specErr("pure method must have exactly one result: " + name))
	}
	rt := sig.Results().At(0).Type()
	if !x.declSeen[fname] {
		x.declareFun(fname, sorts, x.sortOf(rt))
		x.assume(x.ufValidAxiom(fname, sorts, rt))
	}
	r := "(" + fname + " " + strings.Join(terms, " ") + ")"
	return &Val{T: rt, S: r}
}

// ufValidAxiom: every application of the uninterpreted function yields a
// well-typed value (stated once, as a quantified axiom, so that it also
// covers applications under quantifiers).
func (x *fx) ufValidAxiom(fname string, sorts []string, rt types.Type) string {
	var bs, as []string
	for i, s := range sorts {
		bs = append(bs, fmt.Sprintf("(a%d %s)", i, s))
		as = append(as, fmt.Sprintf("a%d", i))
	}
	app := "(" + fname + " " + strings.Join(as, " ") + ")"
	v := x.valid(app, rt, x.top0)
	if v == "true" {
		return "true"
	}
	return fmt.Sprintf("(forall (%s) (! %s :pattern (%s)))", strings.Join(bs, " "), v, app)
}

func (x *fx) pureFnCall(fv *Val, sig *types.Signature, args []*Val) *Val {
	var sorts []string
	terms := []string{fv.S}
	sorts = append(sorts, "Int")
	key := ""
	for _, a := range args {
		sorts = append(sorts, x.sortOf(a.T))
		terms = append(terms, a.S)
		key += "_" + strings.Trim(sanitize(x.sortOf(a.T)), "|")
	}
	rt := sig.Results().At(0).Type()
	fname := "|fncall" + key + "|"
	if !x.declSeen[fname] {
		x.declareFun(fname, sorts, x.sortOf(rt))
		x.assume(x.ufValidAxiom(fname, sorts, rt))
	}
	r := "(" + fname + " " + strings.Join(terms, " ") + ")"
	return &Val{T: rt, S: r}
}

// assumeFnSpec adds the axioms of a named function spec for a func-typed parameter.
func (x *fx) assumeFnSpec(pname, spec string) {
	var fv *Val
	if pk, fname, ok := strings.Cut(pname, "."); ok {
		// a package-level function of an imported package declared pure, e.g. bytes.Compare
		for _, imp := range x.fn.Pkg.Pkg.Imports() {
			if imp.Name() == pk {
				if fo, ok := imp.Scope().Lookup(fname).(*types.Func); ok {
					fv = &Val{T: fo.Type(), S: fmt.Sprint(x.g.funcIDByName(fo.FullName()))}
				}
			}
		}
		if fv == nil {
			panic(specErr("fnspec: no function " + pname))
		}
		for _, f := range x.fnSpecAxioms(fv, spec) {
			x.assume(f)
		}
		x.assumptions[pname+" is a pure "+spec] = true
		return
	}
	for _, p := range x.fn.Params {
		if p.Name() == pname {
			fv = x.vals[p]
		}
	}
	for _, p := range x.fn.FreeVars {
		if p.Name() == pname {
			fv = x.vals[p]
		}
	}
	if fv == nil {
		panic(specErr("fnspec: no parameter " + pname))
	}
	for _, f := range x.fnSpecAxioms(fv, spec) {
		x.assume(f)
	}
}

func (x *fx) fnSpecAxioms(fv *Val, spec string) []string {
	sig := fv.T.Underlying().(*types.Signature)
	switch spec {
	case "pure":
		return nil
	case "total_preorder":
		// three-way comparison: reflexive, antisymmetric in sign, transitive
		if sig.Params().Len() != 2 {
			panic(specErr("total_preorder needs a binary function"))
		}
		s := x.sortOf(sig.Params().At(0).Type())
		mk := func(a, b string) string {
			return x.pureFnCall(fv, sig, []*Val{{T: sig.Params().At(0).Type(), S: a}, {T: sig.Params().At(1).Type(), S: b}}).S
		}
		z := x.intConst(big.NewInt(0), sig.Results().At(0).Type())
		lt := func(a, b string) string { return x.binop(token.LSS, &Val{T: tInt, S: a}, &Val{T: tInt, S: b}, tBool, false).S }
		le := func(a, b string) string { return x.binop(token.LEQ, &Val{T: tInt, S: a}, &Val{T: tInt, S: b}, tBool, false).S }
		ab, ba, bc, ac := mk("a", "b"), mk("b", "a"), mk("b", "c"), mk("a", "c")
		return []string{
			fmt.Sprintf("(forall ((a %s)) (= %s %s))", s, mk("a", "a"), z),
			fmt.Sprintf("(forall ((a %s) (b %s)) (! (and (= %s %s) (= (= %s %s) (= %s %s))) :pattern (%s)))", s, s, lt(ab, z), lt(z, ba), ab, z, ba, z, ab),
			fmt.Sprintf("(forall ((a %s) (b %s) (c %s)) (! (=> (and %s %s) %s) :pattern (%s %s)))", s, s, s, le(ab, z), le(bc, z), le(ac, z), ab, bc),
		}
	}
	panic(specErr("unknown fnspec " + spec))
}

// applySpec applies a declared spec function.
func (x *fx) applySpec(sf *SpecFn, args []*Expr, env *specEnv) *Val {
	if len(args) != len(sf.Params) {
		panic(specErr(fmt.Sprintf("spec %s expects %d arguments", sf.Name, len(sf.Params))))
	}
	pkg := x.g.typesPkg(sf.Pkg)
	var vals []*Val
	for i, a := range args {
		pt := x.parseTypeString(sf.Params[i].Type, pkg)
		vals = append(vals, x.typed(x.eval(a, env), pt))
	}
	rt := x.parseTypeString(sf.Ret, pkg)
	if sf.Body == nil || sf.Rec || x.hidden(sf.Name) {
		// opaque application: an uninterpreted function of the arguments and of
		// the memory rows reachable through slice/pointer arguments (the body
		// reads memory only through its parameters; checked syntactically)
		if sf.Body != nil {
			if err := x.g.checkHideable(sf, map[string]bool{}); err != nil {
				panic(specErr("hide " + sf.Name + ": " + err.Error()))
			}
			x.abstracted["spec function "+sf.Name+" applied opaquely (hide)"] = true
		}
		var sorts, terms []string
		key := ""
		for _, v := range vals {
			sorts = append(sorts, x.sortOf(v.T))
			terms = append(terms, v.S)
			m := env.mem
			if v.M != nil {
				m = v.M
			}
			var et types.Type
			var ref string
			switch u := v.T.Underlying().(type) {
			case *types.Slice:
				et, ref = u.Elem(), slBase(v.S)
			case *types.Pointer:
				et, ref = u.Elem(), ptrRef(v.S)
			}
			if et != nil {
				for _, mn := range x.elemMems(et) {
					sorts = append(sorts, fmt.Sprintf("(Array %s %s)", x.idxSort(), x.memSort[mn]))
					terms = append(terms, fmt.Sprintf("(select %s %s)", x.resolve(m, mn), ref))
					key += "." + strings.TrimPrefix(mn, "M.")
				}
			}
		}
		fname := "|hidden." + sf.Name + key + "|"
		if !x.declSeen[fname] {
			x.declareFun(fname, sorts, x.sortOf(rt))
			x.assume(x.ufValidAxiom(fname, sorts, rt))
		}
		x.usedSpecs[sf.Name] = true
		if len(terms) == 0 {
			return &Val{T: rt, S: fname}
		}
		return &Val{T: rt, S: "(" + fname + " " + strings.Join(terms, " ") + ")"}
	}
	if sf.Body != nil && !sf.Rec {
		// inline (macro) expansion: parameters are bound, memory is the caller's
		inner := *env
		inner.bound = map[string]*Val{}
		for k, v := range env.bound {
			inner.bound[k] = v
		}
		for i, p := range sf.Params {
			inner.bound[p.Name] = vals[i]
		}
		inner.pkg = pkg
		if env.old != nil && env.old != env {
			o := *env.old
			o.bound = inner.bound
			o.old = &o
			inner.old = &o
		} else {
			inner.old = &inner
		}
		r := x.eval(sf.Body, &inner)
		return x.typed(r, rt)
	}
	panic(specErr("spec function " + sf.Name + " cannot be applied"))
}

func (x *fx) hidden(name string) bool {
	return x.hide != nil && x.hide[name]
}

// checkHideable: the body of a spec function may be hidden behind an
// uninterpreted function of (arguments, rows of its slice/pointer arguments)
// only if every memory read in the body goes through a parameter (directly or
// via an element pointer handed to another hideable spec function).
func (g *Gen) checkHideable(sf *SpecFn, seen map[string]bool) error {
	if seen[sf.Name] {
		return nil
	}
	seen[sf.Name] = true
	params := map[string]bool{}
	for _, p := range sf.Params {
		params[p.Name] = true
	}
	var walk func(e *Expr, bound map[string]bool) error
	root := func(e *Expr) *Expr {
		for e != nil && (e.Op == "index" || e.Op == "slice" || e.Op == "field") {
			e = e.Args[0]
		}
		return e
	}
	walk = func(e *Expr, bound map[string]bool) error {
		if e == nil {
			return nil
		}
		switch e.Op {
		case "index", "slice", "field":
			r := root(e)
			if r == nil || r.Op != "id" || !(params[r.Name] || bound[r.Name]) {
				return fmt.Errorf("memory read %s is not rooted at a parameter", e)
			}
		case "old":
			return fmt.Errorf("old() inside a hidden spec function")
		case "forall", "exists":
			nb := map[string]bool{e.Name: true}
			for k := range bound {
				nb[k] = true
			}
			for _, a := range e.Args {
				if err := walk(a, nb); err != nil {
					return err
				}
			}
			return nil
		case "call":
			if f := e.Args[0]; f.Op == "id" {
				if sf2 := g.lookupSpec(sf.Pkg, f.Name); sf2 != nil && sf2.Body != nil {
					if err := g.checkHideable(sf2, seen); err != nil {
						return err
					}
				}
			} else if f.Op == "field" {
				return fmt.Errorf("method call %s inside a hidden spec function", e)
			}
		}
		for _, a := range e.Args {
			if err := walk(a, bound); err != nil {
				return err
			}
		}
		return nil
	}
	return walk(sf.Body, map[string]bool{})
}

func (x *fx) dbgNames() string {
	s := ""
	for _, li := range x.loopList {
		s += fmt.Sprintf(" [loop%d header=%d names:", li.ordinal, li.header.Index)
		for k := range x.nameIn[li.header.Index] {
			s += " " + k
		}
		s += "]"
	}
	return s
}

// pkgConst: a package-level constant used in a contract; untyped integer
// constants stay untyped so that they adopt the type of their context.
func (x *fx) pkgConst(c *types.Const) *Val {
	if b, ok := c.Type().(*types.Basic); ok && b.Kind() == types.UntypedInt {
		return &Val{T: tUntypedInt, S: c.Val().ExactString()}
	}
	return x.constVal(c.Val(), c.Type())
}

// pureGoFunc applies a Go function that the contract declares pure as an
// uninterpreted function of its arguments (same symbol as calls in the code).
func (x *fx) pureGoFunc(fo *types.Func, args []*Expr, env *specEnv) *Val {
	sig := fo.Type().(*types.Signature)
	var avs []*Val
	for i, a := range args {
		avs = append(avs, x.typed(x.eval(a, env), sig.Params().At(i).Type()))
	}
	fv := &Val{T: sig, S: fmt.Sprint(x.g.funcIDByName(fo.FullName()))}
	return x.pureFnCall(fv, sig, avs)
}

func (x *fx) ghostMem(gv *GhostVar) (string, types.Type) {
	name := "$g." + gv.Name
	var t types.Type
	switch gv.Type {
	case "bool":
		t = tBool
	case "int":
		t = tInt
	default:
		t = x.parseTypeString(gv.Type, x.g.typesPkg(gv.Pkg))
	}
	if _, ok := x.memSort[name]; !ok {
		x.memSort[name] = x.sortOf(t)
		x.memType[name] = t
	}
	return name, t
}

func (x *fx) ghostRead(gv *GhostVar, m *memNode) *Val {
	name, t := x.ghostMem(gv)
	return &Val{T: t, S: x.resolve(m, name)}
}

// tryEval evaluates e, returning nil when it does not bind (used to
// distinguish field selection from method calls).
func (x *fx) tryEval(e *Expr, env *specEnv) (v *Val) {
	defer func() {
		if r := recover(); r != nil {
			if _, ok := r.(specErr); ok {
				v = nil
				return
			}
			panic(r)
		}
	}()
	return x.eval(e, env)
}
