package main

import (
	"fmt"
	"go/types"
	"sort"
	"strings"
)

// Memory model (Burstall–Bornat): one two-level SMT array per scalar element
// type  M.<type> : Array Int (Array Idx T)  indexed by (object ref, offset),
// and one per struct field  F.<struct>.<field>.  Memory states are persistent
// nodes resolved lazily per memory name, so the generator never needs to know
// the set of memory names up front.

type memNode struct {
	id     int
	kind   string // entry, store, havoc, merge
	parent *memNode
	name   string            // store: the memory name written
	term   string            // store: the new version term
	set    map[string]bool   // havoc: names havocked (nil = all)
	tag    string            // havoc: version tag
	frame  func(name, newV, oldV string) // havoc: emits frame assumptions for a havocked name
	preds  []mergeEdge       // merge
	cache  map[string]string // resolved versions
	pc     string            // path condition under which the node was created (frames are resolved lazily)
	inBlk  bool              // created while a block was being executed
}

type mergeEdge struct {
	cond string
	m    *memNode
}

func (x *fx) newMem(kind string, parent *memNode) *memNode {
	x.nmem++
	return &memNode{id: x.nmem, kind: kind, parent: parent, cache: map[string]string{}, pc: x.curPC, inBlk: x.curBlock != nil}
}

// memName returns the memory array name holding objects of type t (non-struct).
func (x *fx) memName(t types.Type) string {
	var key string
	switch u := t.Underlying().(type) {
	case *types.Basic:
		key = u.Name()
		if u.Kind() == types.Uint8 {
			key = "uint8"
		}
		if u.Kind() == types.Int32 && u.Name() == "rune" {
			key = "int32"
		}
		if u.Info()&types.IsString != 0 {
			key = "string"
		}
	case *types.Slice:
		key = "slice"
	case *types.Pointer:
		key = "ptr"
	case *types.Interface:
		key = "iface"
	case *types.Signature:
		key = "func"
	case *types.Map:
		key = "map"
	case *types.Chan:
		key = "chan"
	case *types.Array:
		return x.memName(u.Elem())
	default:
		panic(unsupported(fmt.Sprintf("memory of type %s", t)))
	}
	name := "M." + key
	if _, ok := x.memSort[name]; !ok {
		x.memSort[name] = x.sortOf(t)
		if a, ok := t.Underlying().(*types.Array); ok {
			x.memSort[name] = x.sortOf(a.Elem())
		}
		x.memType[name] = t
	}
	return name
}

func (x *fx) fieldMemName(named types.Type, st *types.Struct, i int) string {
	name := "F." + sanitize(types.TypeString(named, nil)) + "." + st.Field(i).Name()
	if _, ok := x.memSort[name]; !ok {
		x.memSort[name] = x.sortOf(st.Field(i).Type())
		x.memType[name] = st.Field(i).Type()
	}
	return name
}

func (x *fx) memArraySort(name string) string {
	if strings.HasPrefix(name, "$") {
		return x.memSort[name]
	}
	return fmt.Sprintf("(Array Int (Array %s %s))", x.idxSort(), x.memSort[name])
}

func (x *fx) declMemVersion(name, tag string) string {
	v := "|" + name + "@" + tag + "|"
	if x.declSeen[v] {
		return v
	}
	x.declare(v, x.memArraySort(name))
	// int mode: every cell of an integer-typed memory holds a value of its type
	if x.mode == ModeInt && !strings.HasPrefix(name, "$") {
		if t, ok := x.memType[name]; ok {
			et := t
			if a, ok := t.Underlying().(*types.Array); ok {
				if !strings.HasPrefix(name, "M.") {
					return v // a struct field holding an array value: the cell is an SMT array
				}
				et = a.Elem()
			}
			if _, isI := isInt(et); isI {
				lo, hi := intRange(et)
				x.assume(fmt.Sprintf("(forall ((q!r Int) (q!i Int)) (! (and (<= %s (select (select %s q!r) q!i)) (<= (select (select %s q!r) q!i) %s)) :pattern ((select (select %s q!r) q!i))))", smtInt(lo), v, v, smtInt(hi), v))
			}
		}
	}
	return v
}

// resolve returns the term of memory `name` in state m.
func (x *fx) resolve(m *memNode, name string) string {
	if v, ok := m.cache[name]; ok {
		return v
	}
	var v string
	switch m.kind {
	case "entry":
		v = x.declMemVersion(name, "0")
	case "store":
		if m.name == name {
			v = m.term
		} else {
			v = x.resolve(m.parent, name)
		}
	case "havoc":
		if m.set == nil || m.set[name] {
			old := x.resolve(m.parent, name)
			v = x.declMemVersion(name, m.tag)
			if m.frame != nil {
				// the frame facts hold under the path condition of the havoc itself,
				// not of whichever later block happens to resolve this memory first
				save, saveOn := x.pcOverride, x.pcOverrideOn
				x.pcOverride, x.pcOverrideOn = m.pc, m.inBlk
				m.frame(name, v, old)
				x.pcOverride, x.pcOverrideOn = save, saveOn
			}
		} else {
			v = x.resolve(m.parent, name)
		}
	case "merge":
		vs := make([]string, len(m.preds))
		same := true
		for i, p := range m.preds {
			vs[i] = x.resolve(p.m, name)
			if vs[i] != vs[0] {
				same = false
			}
		}
		if same {
			v = vs[0]
		} else {
			v = x.declMemVersion(name, fmt.Sprintf("m%d", m.id))
			t := vs[len(vs)-1]
			for i := len(vs) - 2; i >= 0; i-- {
				t = fmt.Sprintf("(ite %s %s %s)", m.preds[i].cond, vs[i], t)
			}
			x.assume("(= " + v + " " + t + ")")
		}
	}
	m.cache[name] = v
	return v
}

func (x *fx) memStore(m *memNode, name, term string) *memNode {
	// name the new version to keep terms small
	x.nver++
	v := x.declMemVersion(name, fmt.Sprintf("s%d", x.nver))
	x.assume("(= " + v + " " + term + ")")
	n := x.newMem("store", m)
	n.name = name
	n.term = v
	x.noteWrite(name)
	return n
}

// read M[name][ref][off]
func (x *fx) memRead(m *memNode, name, ref, off string) string {
	return fmt.Sprintf("(select (select %s %s) %s)", x.resolve(m, name), ref, off)
}

func (x *fx) memWrite(m *memNode, name, ref, off, val string) *memNode {
	cur := x.resolve(m, name)
	return x.memStore(m, name, fmt.Sprintf("(store %s %s (store (select %s %s) %s %s))", cur, ref, cur, ref, off, val))
}

func (x *fx) noteWrite(name string) {
	if x.curBlock != nil {
		s := x.written[x.curBlock.Index]
		if s == nil {
			s = map[string]bool{}
			x.written[x.curBlock.Index] = s
		}
		s[name] = true
	}
}

func (x *fx) noteHavocAll() {
	if x.curBlock != nil {
		x.havocAllIn[x.curBlock.Index] = true
	}
}

func ptrRef(p string) string { return "(p-ref " + p + ")" }
func ptrOff(p string) string { return "(p-off " + p + ")" }
func slBase(s string) string { return "(s-base " + s + ")" }
func slOff(s string) string  { return "(s-off " + s + ")" }
func slLen(s string) string  { return "(s-len " + s + ")" }
func slCap(s string) string  { return "(s-cap " + s + ")" }

func (x *fx) iadd(a, b string) string {
	if x.mode == ModeBV {
		return "(bvadd " + a + " " + b + ")"
	}
	if b == "0" {
		return a
	}
	if a == "0" {
		return b
	}
	return "(+ " + a + " " + b + ")"
}
func (x *fx) isub(a, b string) string {
	if x.mode == ModeBV {
		return "(bvsub " + a + " " + b + ")"
	}
	if b == "0" {
		return a
	}
	return "(- " + a + " " + b + ")"
}
func (x *fx) imul(a, b string) string {
	if x.mode == ModeBV {
		return "(bvmul " + a + " " + b + ")"
	}
	return "(* " + a + " " + b + ")"
}
func (x *fx) ile(a, b string) string {
	if x.mode == ModeBV {
		return "(bvsle " + a + " " + b + ")"
	}
	return "(<= " + a + " " + b + ")"
}
func (x *fx) ilt(a, b string) string {
	if x.mode == ModeBV {
		return "(bvslt " + a + " " + b + ")"
	}
	return "(< " + a + " " + b + ")"
}

func structOf(t types.Type) (*types.Struct, bool) {
	s, ok := t.Underlying().(*types.Struct)
	return s, ok
}

// loadAt reads a value of type t stored at object (ref, off).
func (x *fx) loadAt(m *memNode, t types.Type, ref, off string) string {
	if st, ok := structOf(t); ok {
		s := x.sortOf(t)
		if st.NumFields() == 0 {
			return x.ctorName(s)
		}
		var fs []string
		for i := 0; i < st.NumFields(); i++ {
			fs = append(fs, x.memRead(m, x.fieldMemName(t, st, i), ref, off))
		}
		return "(" + x.ctorName(s) + " " + strings.Join(fs, " ") + ")"
	}
	if _, ok := t.Underlying().(*types.Array); ok {
		if x.c.Abstract {
			// abstracted mode: the array value is unconstrained
			x.abstracted["load of a whole array value (unconstrained)"] = true
			return x.fresh("arrayval", x.sortOf(t))
		}
		panic(unsupported("load of a whole array value from memory"))
	}
	return x.memRead(m, x.memName(t), ref, off)
}

func (x *fx) storeAt(m *memNode, t types.Type, ref, off, val string) *memNode {
	if st, ok := structOf(t); ok {
		s := x.sortOf(t)
		for i := 0; i < st.NumFields(); i++ {
			m = x.memWrite(m, x.fieldMemName(t, st, i), ref, off, fmt.Sprintf("(%s %s)", x.selName(s, st.Field(i).Name(), i), val))
		}
		return m
	}
	if _, ok := t.Underlying().(*types.Array); ok {
		if x.c.Abstract {
			// abstracted mode: the whole element memory is havocked (sound over-approximation)
			x.abstracted["store of a whole array value (element memory havocked)"] = true
			name := x.memName(t)
			x.nver++
			h := x.newMem("havoc", m)
			h.tag = fmt.Sprintf("arr%d", x.nver)
			h.set = map[string]bool{name: true}
			x.noteWrite(name)
			return h
		}
		panic(unsupported("store of a whole array value to memory"))
	}
	return x.memWrite(m, x.memName(t), ref, off, val)
}

// applyPath reads the component selected by path from value term v.
func (x *fx) applyPath(v string, vt types.Type, path []pathEl) string {
	for _, pe := range path {
		if pe.IsIdx {
			v = fmt.Sprintf("(select %s %s)", v, pe.Idx)
		} else {
			v = fmt.Sprintf("(%s %s)", x.selName(x.sortOf(vt), pe.Name, pe.Field), v)
		}
		vt = pe.T
	}
	return v
}

// updatePath returns v with the component selected by path replaced by nv.
func (x *fx) updatePath(v string, vt types.Type, path []pathEl, nv string) string {
	if len(path) == 0 {
		return nv
	}
	pe := path[0]
	if pe.IsIdx {
		inner := x.updatePath(fmt.Sprintf("(select %s %s)", v, pe.Idx), pe.T, path[1:], nv)
		return fmt.Sprintf("(store %s %s %s)", v, pe.Idx, inner)
	}
	st := vt.Underlying().(*types.Struct)
	s := x.sortOf(vt)
	var fs []string
	for i := 0; i < st.NumFields(); i++ {
		sel := fmt.Sprintf("(%s %s)", x.selName(s, st.Field(i).Name(), i), v)
		if i == pe.Field {
			fs = append(fs, x.updatePath(sel, pe.T, path[1:], nv))
		} else {
			fs = append(fs, sel)
		}
	}
	return "(" + x.ctorName(s) + " " + strings.Join(fs, " ") + ")"
}

// load dereferences pointer p (type *T).
func (x *fx) load(m *memNode, p *Val) *Val {
	pt := p.T.Underlying().(*types.Pointer)
	t := pt.Elem()
	if len(p.Path) == 0 {
		return &Val{T: t, S: x.loadAt(m, t, ptrRef(p.S), ptrOff(p.S))}
	}
	// root object is a struct at p.S; first path element is one of its fields
	pe := p.Path[0]
	root := x.memRead(m, x.fieldMemNameOf(pe), ptrRef(p.S), ptrOff(p.S))
	return &Val{T: t, S: x.applyPath(root, pe.T, p.Path[1:])}
}

func (x *fx) fieldMemNameOf(pe pathEl) string {
	return x.fieldMemName(pe.rootNamed(), pe.ST, pe.Field)
}

func (pe pathEl) rootNamed() types.Type { return pe.rootT }

func (x *fx) store(m *memNode, p *Val, v *Val) *memNode {
	pt := p.T.Underlying().(*types.Pointer)
	t := pt.Elem()
	if len(p.Path) == 0 {
		x.checkFrameStore(t, ptrRef(p.S), ptrOff(p.S), nil)
		return x.storeAt(m, t, ptrRef(p.S), ptrOff(p.S), v.S)
	}
	pe := p.Path[0]
	x.checkFrameStore(nil, ptrRef(p.S), ptrOff(p.S), &pe, p.Path[1:]...)
	name := x.fieldMemNameOf(pe)
	root := x.memRead(m, name, ptrRef(p.S), ptrOff(p.S))
	return x.memWrite(m, name, ptrRef(p.S), ptrOff(p.S), x.updatePath(root, pe.T, p.Path[1:], v.S))
}

func sortedKeys(m map[string]bool) []string {
	var ks []string
	for k := range m {
		ks = append(ks, k)
	}
	sort.Strings(ks)
	return ks
}
