package main

import (
	"fmt"
	"os"
	"strings"

	"golang.org/x/tools/go/packages"
	"golang.org/x/tools/go/ssa"
	"golang.org/x/tools/go/ssa/ssautil"
)

func main() {
	cfg := &packages.Config{Mode: packages.LoadAllSyntax, Dir: "/repo", BuildFlags: []string{"-tags=" + os.Args[1]}}
	pkgs, err := packages.Load(cfg, os.Args[2])
	if err != nil {
		panic(err)
	}
	prog, spkgs := ssautil.AllPackages(pkgs, ssa.GlobalDebug|ssa.InstantiateGenerics)
	prog.Build()
	for _, name := range os.Args[3:] {
		for _, p := range spkgs {
			for fn := range ssautil.AllFunctions(prog) {
				if fn.Pkg == p && (fn.Name() == name || strings.HasSuffix(fn.String(), name)) {
					fn.WriteTo(os.Stdout)
					fmt.Println()
				}
			}
		}
	}
}
