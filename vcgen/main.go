package main

import (
	"flag"
	"fmt"
	"os"
	"runtime/debug"
	"sort"
	"strings"
	"time"
)

// verifyContract generates the obligations of one function under contract.
func (g *Gen) verifyContract(p *program, c *Contract) (obs []*Oblig, x *fx, err error) {
	fn := p.fns[c.Pkg+"."+c.Name]
	cname := c.Name
	if c.Variant != "" {
		cname += "~" + c.Variant
	}
	mk := func(kind, msg string) *Oblig {
		return &Oblig{Fn: c.Pkg + "." + c.Name, Name: shortPkg(c.Pkg) + "." + cname + "#" + kind, Kind: "binds", Status: "failed", Desc: msg, Output: msg, Expect: "unsat"}
	}
	if fn == nil {
		return []*Oblig{mk("binds", "contract does not bind: function "+c.Name+" not found in package "+c.Pkg+" under tags "+p.tags)}, nil, nil
	}
	if fn.Blocks == nil {
		return []*Oblig{mk("binds", "contract does not bind: function "+c.Name+" has no Go body under tags "+p.tags)}, nil, nil
	}
	g.cur = p
	run := func(pass int, lw map[int]*loopInfo) (x *fx, err error) {
		defer func() {
			if r := recover(); r != nil {
				switch e := r.(type) {
				case unsupported:
					err = fmt.Errorf("outside the supported subset: %s", string(e))
				case specErr:
					err = fmt.Errorf("contract does not bind: %s", string(e))
				default:
					err = fmt.Errorf("internal error: %v\n%s", r, debug.Stack())
				}
			}
		}()
		x = newFx(g, fn, c, pass)
		x.usedSpecs = map[string]bool{}
		x.execute(lw)
		return x, nil
	}
	x1, err := run(1, nil)
	if err != nil {
		return []*Oblig{mk("binds", err.Error())}, nil, nil
	}
	x2, err := run(2, x1.loops)
	if err != nil {
		return []*Oblig{mk("binds", err.Error())}, nil, nil
	}
	// loop clauses bind to existing loops
	nl := len(x2.loopList)
	for _, cl := range append(append([]*Clause{}, c.Invariants...), c.Decreases...) {
		if cl.Loop < 1 || cl.Loop > nl {
			// a loop clause for a loop that is gone (e.g. replaced by clear or copy)
			// is unused, not a violation: the postconditions decide
			x2.warnings = append(x2.warnings, fmt.Sprintf("clause %q for loop=%d is unused: the function has %d loops", cl.Label, cl.Loop, nl))
		}
	}
	// a postcondition that was skipped at every return (it mentions locals that
	// are in scope at none of them) checks nothing: the contract does not bind
	if x2.retCount > 0 {
		for k, cl := range c.Ensures {
			if !x2.ensuresEvaluated[k] {
				return []*Oblig{mk("binds", fmt.Sprintf("contract does not bind: ensures %q mentions locals that are in scope at no return", clauseLabel(cl, k)))}, x2, nil
			}
		}
	}
	// an assertion whose call site (NAME#N) or return (N) no longer exists checks
	// nothing: the contract does not bind
	for k, cl := range c.Asserts {
		if cl.E != nil && cl.E.Op == "id" && cl.E.Name == "false" {
			continue // `assert call=NAME#N label: false` forbids the call: it need not exist
		}
		if !x2.assertSeen[k] {
			return []*Oblig{mk("binds", fmt.Sprintf("contract does not bind: assert %q is attached to %s#%d, which the function does not have", clauseLabel(cl, k), strings.TrimPrefix(cl.Kind, "assert:"), cl.Loop))}, x2, nil
		}
	}
	return x2.obs, x2, nil
}

func shortPkg(p string) string {
	if i := strings.LastIndex(p, "/"); i >= 0 {
		p = p[i+1:]
	}
	if p == "parquet-go" {
		p = "parquet"
	}
	return p
}

func main() {
	if len(os.Args) < 2 {
		fmt.Fprintln(os.Stderr, "usage: vcgen check|dump ...")
		os.Exit(2)
	}
	switch os.Args[1] {
	case "check":
		os.Exit(cmdCheck(os.Args[2:]))
	case "dump":
		os.Exit(cmdDump(os.Args[2:]))
	case "replay":
		os.Exit(cmdReplay(os.Args[2:]))
	default:
		fmt.Fprintln(os.Stderr, "unknown command")
		os.Exit(2)
	}
}

func cmdDump(args []string) int {
	fs := flag.NewFlagSet("dump", flag.ExitOnError)
	repo := fs.String("repo", "/repo", "")
	verif := fs.String("verif", "/verif", "")
	fnName := fs.String("fn", "", "contract name (pkg.Name suffix)")
	ob := fs.String("ob", "", "obligation substring to print")
	solve := fs.Bool("solve", true, "")
	fs.Parse(args)
	g := NewGen(*repo)
	if err := g.LoadContracts(*verif + "/specs"); err != nil {
		fmt.Println(err)
		return 2
	}
	var cs []*Contract
	for _, cf := range g.files {
		for _, c := range cf.Contracts {
			if strings.HasSuffix(c.Pkg+"."+c.Name, *fnName) && !c.Trusted {
				cs = append(cs, c)
			}
		}
	}
	if len(cs) == 0 {
		fmt.Println("no such contract")
		return 2
	}
	for _, c := range cs {
		tags := "verif"
		if c.Tags != "" {
			tags += "," + c.Tags
		}
		p, err := g.Load(tags, []string{c.Pkg})
		if err != nil {
			fmt.Println(err)
			return 2
		}
		t0 := time.Now()
		obs, x, _ := g.verifyContract(p, c)
		fmt.Printf("%s: %d obligations generated in %.2fs\n", c.Name, len(obs), time.Since(t0).Seconds())
		if x != nil {
			for _, w := range x.warnings {
				fmt.Println("  warning:", w)
			}
		}
		var todo []*Oblig
		for _, o := range obs {
			if o.Status == "" {
				todo = append(todo, o)
			}
		}
		if *solve {
			dischargeAll(todo, *verif+"/work/dump", 16, 5, 30)
		}
		for _, o := range obs {
			fmt.Printf("  %-8s %-10s %6.2fs %s  -- %s\n", o.Status, o.Backend, o.Secs, o.Name, o.Desc)
			if o.Status != "proved" && o.Output != "" && (o.Kind == "binds" || strings.Contains(o.Output, "error")) {
				fmt.Println("      ", o.Output)
			}
			if *ob != "" && strings.Contains(o.Name, *ob) && o.fx != nil {
				fmt.Println(o.Query(true, ""))
			}
		}
	}
	return 0
}

func sortedObs(obs []*Oblig) {
	sort.SliceStable(obs, func(i, j int) bool { return obs[i].Name < obs[j].Name })
}
