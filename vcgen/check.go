package main

import (
	"encoding/json"
	"flag"
	"fmt"
	"os"
	"path/filepath"
	"runtime/debug"
	"sort"
	"strconv"
	"strings"
	"time"
)

type KnownFinding struct {
	Property   string `json:"property"`
	Obligation string `json:"obligation"` // obligation name prefix (without @retN)
	Function   string `json:"function"`
	Exclude    string `json:"exclude"` // witness class: spec expression over the function's parameters
	Witness    any    `json:"witness"`
	Status     string `json:"status"` // open | fixed
	Commit     string `json:"commit"`
	WhatFails  string `json:"what_fails"`
}

func loadKnownFindings(path string) ([]*KnownFinding, error) {
	b, err := os.ReadFile(path)
	if err != nil {
		if os.IsNotExist(err) {
			return nil, nil
		}
		return nil, err
	}
	var kf struct {
		Findings []*KnownFinding `json:"findings"`
	}
	if err := json.Unmarshal(b, &kf); err != nil {
		return nil, err
	}
	return kf.Findings, nil
}

// lemmaObligations builds the obligations of a lemma (a pure SMT goal over
// spec functions and contract-level facts).
func (g *Gen) lemmaObligations(p *program, l *Lemma) (obs []*Oblig, err error) {
	defer func() {
		if r := recover(); r != nil {
			switch e := r.(type) {
			case unsupported:
				err = fmt.Errorf("%s", string(e))
			case specErr:
				err = fmt.Errorf("lemma does not bind: %s", string(e))
			default:
				err = fmt.Errorf("internal error: %v\n%s", r, debug.Stack())
			}
		}
	}()
	g.cur = p
	c := &Contract{Pkg: l.Pkg, Name: "lemma:" + l.Name, Mode: l.Mode, Pure: map[string]bool{}, FnSpecs: map[string]string{}, ModAll: true}
	x := newFx(g, nil, c, 2)
	x.usedSpecs = map[string]bool{}
	x.entryMem = x.newMem("entry", nil)
	x.curMem = x.entryMem
	x.top0 = x.resolve(x.entryMem, "$top")
	x.assume("(> " + x.top0 + " 3000000)")
	x.curPC = "true"
	pkg := g.typesPkg(l.Pkg)
	vars := map[string]*Val{}
	for _, v := range l.Vars {
		t := x.parseTypeString(v.Type, pkg)
		n := "|" + v.Name + "|"
		x.declare(n, x.sortOf(t))
		x.assume(x.valid(n, t, x.top0))
		vars[v.Name] = &Val{T: t, S: n}
	}
	env := &specEnv{mem: x.entryMem, pkg: pkg, top: x.top0}
	env.look = func(n string) *Val { return vars[n] }
	env.old = env
	for _, cl := range l.Assumes {
		x.assume(x.evalBool(cl.E, env))
	}
	for k, cl := range l.Goals {
		goal := x.evalBool(cl.E, env)
		o := x.oblige("lemma", clauseLabel(cl, k), goal, "lemma "+l.Name+": "+cl.Src)
		if o != nil {
			o.Name = shortPkg(l.Pkg) + ".lemma:" + l.Name + "#" + clauseLabel(cl, k)
			o.Src, o.Line = cl.Src, cl.Line
		}
	}
	return x.obs, nil
}

func contains(ss []string, s string) bool {
	for _, t := range ss {
		if t == s {
			return true
		}
	}
	return false
}

type fnReport struct {
	Function            string   `json:"function"`
	File                string   `json:"contract_file"`
	Mode                string   `json:"integer_mode"`
	Tags                string   `json:"build_tags"`
	Abstract            bool     `json:"abstracted_mode"`
	Loops               int      `json:"loops"`
	LoopsWithInvariant  int      `json:"loops_with_invariant"`
	TerminationProved   bool     `json:"termination_proved"`
	Obligations         int      `json:"obligations"`
	Discharged          int      `json:"discharged"`
	AbstractedConstructs []string `json:"abstracted_constructs,omitempty"`
	CalleeContracts     []string `json:"callee_contracts_used,omitempty"`
	Warnings            []string `json:"warnings,omitempty"`
}

func cmdCheck(args []string) int {
	fs := flag.NewFlagSet("check", flag.ExitOnError)
	repo := fs.String("repo", "/repo", "")
	verif := fs.String("verif", "/verif", "")
	prop := fs.String("property", "", "")
	tier := fs.String("tier", "quick", "")
	par := fs.Int("par", 12, "")
	only := fs.String("only", "", "only contracts whose name contains this (debug; evidence not written)")
	workDir := fs.String("work", "", "directory for queries and replays (default <verif>/work)")
	writeEvidence := fs.Bool("evidence", true, "write the evidence file and replays under <verif>")
	fs.Parse(args)
	t0 := time.Now()
	seed, _ := strconv.Atoi(os.Getenv("VERIF_SEED"))
	broken := func(f string, a ...any) int {
		fmt.Printf("CHECK-BROKEN property=%s: %s\n", *prop, fmt.Sprintf(f, a...))
		return 2
	}
	g := NewGen(*repo)
	if err := g.LoadContracts(*verif + "/specs"); err != nil {
		// a contract file that no longer parses is a change to the contracts, not to the code
		return broken("contracts do not parse: %v", err)
	}
	kfs, err := loadKnownFindings(*verif + "/known_findings.json")
	if err != nil {
		return broken("known_findings.json: %v", err)
	}
	var cs []*Contract
	var trustedUsed []string
	for _, cf := range g.files {
		for _, c := range cf.Contracts {
			if !contains(c.Props, *prop) {
				continue
			}
			if *only != "" && !strings.Contains(c.Name, *only) {
				continue
			}
			if c.Trusted {
				trustedUsed = append(trustedUsed, c.Pkg+"."+c.Name+" (contract assumed, body not verified: "+strings.Join(c.Notes, "; ")+")")
				continue
			}
			cs = append(cs, c)
		}
	}
	var lemmas []*Lemma
	for _, l := range g.lemmas {
		if contains(l.Props, *prop) && (*only == "" || strings.Contains(l.Name, *only)) {
			lemmas = append(lemmas, l)
		}
	}
	if len(cs) == 0 && len(lemmas) == 0 {
		return broken("no contracts are tagged with this property")
	}
	// group by tag set
	byTags := map[string][]*Contract{}
	pkgsByTags := map[string]map[string]bool{}
	for _, c := range cs {
		tags := "verif"
		if c.Tags != "" {
			tags += "," + c.Tags
		}
		byTags[tags] = append(byTags[tags], c)
		if pkgsByTags[tags] == nil {
			pkgsByTags[tags] = map[string]bool{}
		}
		pkgsByTags[tags][c.Pkg] = true
	}
	for _, l := range lemmas {
		if pkgsByTags["verif"] == nil {
			pkgsByTags["verif"] = map[string]bool{}
		}
		pkgsByTags["verif"][l.Pkg] = true
	}
	var all []*Oblig
	var reports []*fnReport
	fxs := map[string]*fx{}
	assumptions := map[string]bool{}
	var tagKeys []string
	for k := range pkgsByTags {
		tagKeys = append(tagKeys, k)
	}
	sort.Strings(tagKeys)
	var loadSecs float64
	for _, tags := range tagKeys {
		tl := time.Now()
		p, err := g.Load(tags, sortedKeys(pkgsByTags[tags]))
		loadSecs += time.Since(tl).Seconds()
		if err != nil {
			return broken("cannot load the repository under tags %s: %v", tags, err)
		}
		for _, c := range byTags[tags] {
			obs, x, _ := g.verifyContract(p, c)
			all = append(all, obs...)
			fname := c.Pkg + "." + c.Name
			if c.Variant != "" {
				fname += " (second specification: " + c.Variant + ")"
			}
			rep := &fnReport{Function: fname, File: strings.TrimPrefix(c.File, *repo+"/"), Mode: c.Mode.String(), Tags: tags, Abstract: c.Abstract}
			if x != nil {
				fxs[fname] = x
				rep.Loops = len(x.loopList)
				withInv := map[int]bool{}
				for _, cl := range c.Invariants {
					withInv[cl.Loop] = true
				}
				rep.LoopsWithInvariant = len(withInv)
				dec := map[int]bool{}
				for _, cl := range c.Decreases {
					dec[cl.Loop] = true
				}
				rep.TerminationProved = len(dec) == len(x.loopList)
				rep.AbstractedConstructs = sortedKeys(x.abstracted)
				rep.CalleeContracts = sortedKeys(x.calls)
				rep.Warnings = x.warnings
				for a := range x.assumptions {
					assumptions[a] = true
				}
				for tname := range x.trusted {
					trustedUsed = append(trustedUsed, tname+" (assumed contract used at a call site)")
				}
			}
			reports = append(reports, rep)
		}
		if tags == "verif" {
			for _, l := range lemmas {
				obs, err := g.lemmaObligations(p, l)
				if err != nil {
					all = append(all, &Oblig{Fn: l.Pkg + ".lemma:" + l.Name, Name: shortPkg(l.Pkg) + ".lemma:" + l.Name + "#binds", Kind: "binds", Status: "failed", Desc: err.Error(), Output: err.Error(), Expect: "unsat"})
				}
				all = append(all, obs...)
			}
		}
	}
	// discharge
	workBase := filepath.Join(*verif, "work")
	if *workDir != "" {
		workBase = *workDir
	}
	work := filepath.Join(workBase, *prop)
	os.RemoveAll(work)
	os.MkdirAll(work, 0o755)
	var todo []*Oblig
	for _, o := range all {
		if o.Status == "" {
			todo = append(todo, o)
		}
	}
	q1, q2 := 5, 60
	if *tier == "thorough" {
		q1, q2 = 10, 180
	}
	// an obligation named by an open known finding is expected to fail: it gets a
	// short budget (the finding's exclusion query decides its attribution)
	for _, o := range todo {
		for _, kf := range kfs {
			if kf.Status == "open" && kf.Property == *prop && obligationMatches(o.Name, kf.Obligation) {
				o.ShortBudget = true
			}
		}
	}
	ts := time.Now()
	dischargeAll(todo, work, *par, q1, q2)
	// second chance for obligations no solver decided: they are re-run a few at a
	// time with a doubled budget, so that a loaded machine (many queries racing
	// three solvers each) does not turn a slow proof into an alarm
	var again []*Oblig
	for _, o := range todo {
		if o.Status == "unknown" && o.Kind != "canary" && !o.ShortBudget {
			o.Secs = 0
			again = append(again, o)
		}
	}
	if len(again) > 0 && len(again) <= 12 {
		dischargeAll(again, work, 3, q1, 2*q2)
	}
	solveWall := time.Since(ts).Seconds()

	// classify
	var proofObs, canaries, failed, errored []*Oblig
	var unreachable []string
	deadRets, allRets := map[string]int{}, map[string]int{}
	for _, o := range all {
		switch {
		case o.Kind == "canary":
			canaries = append(canaries, o)
			if o.Status == "error" {
				errored = append(errored, o)
			}
			if o.Status == "failed" {
				// `assert false` was provable there.  For the precondition canary
				// the contract is contradictory (the check is broken).  For a single
				// return it may equally be dead code in the function, so it is only
				// recorded - unless every return of the function is unreachable.
				if strings.HasSuffix(o.Name, "#vacuity:requires") {
					errored = append(errored, o)
				} else {
					unreachable = append(unreachable, o.Name)
					deadRets[o.Fn]++
				}
			}
			if strings.Contains(o.Name, "#vacuity:ret") {
				allRets[o.Fn]++
			}
		default:
			proofObs = append(proofObs, o)
			if o.Status == "error" {
				errored = append(errored, o)
			} else if o.Status != "proved" {
				failed = append(failed, o)
			}
		}
	}
	failedFns := map[string]bool{}
	for _, o := range failed {
		failedFns[o.Fn] = true
	}
	for fn, n := range deadRets {
		// every return unreachable means a contradictory contract - unless an
		// obligation of the function already failed (a failed assertion is assumed
		// after it is checked, which cuts the paths behind it): then the failed
		// obligation is the report
		if n == allRets[fn] && !failedFns[fn] {
			for _, o := range canaries {
				if o.Fn == fn && o.Status == "failed" {
					errored = append(errored, o)
				}
			}
		}
	}
	for _, u := range unreachable {
		fmt.Printf("  note: %s is unreachable under the contract (dead code, or an over-strong contract)\n", u)
	}
	if len(errored) > 0 {
		for _, o := range errored {
			fmt.Printf("  broken: %s status=%s %s\n", o.Name, o.Status, firstLines(o.Output, 2))
		}
		if len(errored) > 0 && errored[0].Kind == "canary" && errored[0].Status == "failed" {
			return broken("vacuity canary %s came back unsat: the contract is contradictory", errored[0].Name)
		}
		return broken("solver error on %d obligations (first: %s)", len(errored), errored[0].Name)
	}
	// known findings
	replayDir := filepath.Join(*verif, "replays", *prop)
	if !*writeEvidence {
		replayDir = filepath.Join(workBase, "replays", *prop)
	}
	os.RemoveAll(replayDir)
	var violations, known []*Oblig
	knownMsg := map[*Oblig]*KnownFinding{}
	for _, o := range failed {
		var match *KnownFinding
		for _, kf := range kfs {
			if kf.Status == "open" && kf.Property == *prop && obligationMatches(o.Name, kf.Obligation) {
				match = kf
			}
		}
		if match != nil && g.coveredByFinding(o, match, fxs, work) {
			known = append(known, o)
			knownMsg[o] = match
			continue
		}
		violations = append(violations, o)
	}
	// bounded conformance stand-ins (thorough tier): the executable contracts of
	// functions marked `bounded` are run against the default build
	var boundedRes []map[string]any
	if *tier == "thorough" || os.Getenv("VERIF_BOUNDED_IN_QUICK") != "" {
		var bcs []*Contract
		for _, cf := range g.files {
			for _, c := range cf.Contracts {
				if c.Bounded != "" && contains(c.Props, *prop) {
					bcs = append(bcs, c)
				}
			}
		}
		if len(bcs) > 0 {
			pkgs := map[string]bool{}
			for _, c := range bcs {
				pkgs[c.Pkg] = true
			}
			if p, err := g.Load("verif", sortedKeys(pkgs)); err == nil {
				for _, c := range bcs {
					res, o := g.boundedStandin(p, c, work, *repo, *verif)
					boundedRes = append(boundedRes, res)
					if o != nil {
						// an open known finding covers the violation iff the stand-in
						// passes once the finding's witness class is excluded
						var match *KnownFinding
						for _, kf := range kfs {
							if kf.Status == "open" && kf.Property == *prop && kf.Exclude != "" && obligationMatches(o.Name, kf.Obligation) {
								match = kf
							}
						}
						if match != nil {
							if e, err := ParseExpr("!(" + match.Exclude + ")"); err == nil {
								c2 := *c
								c2.BoundedReq = append(append([]*Clause{}, c.BoundedReq...), &Clause{E: e, Src: "!(" + match.Exclude + ")", Label: "excluding-known"})
								res2, o2 := g.boundedStandin(p, &c2, work, *repo, *verif)
								res2["excluding_known_finding"] = match.Exclude
								boundedRes = append(boundedRes, res2)
								if o2 == nil && res2["skipped"] == nil {
									known = append(known, o)
									knownMsg[o] = match
									continue
								}
							}
						}
						violations = append(violations, o)
					}
				}
			}
		}
	}
	// output
	sortedObs(violations)
	printed := map[string]bool{}
	for _, o := range known {
		kf := knownMsg[o]
		line := fmt.Sprintf("KNOWN-FINDING: property=%s %s (obligation %s)", *prop, kf.WhatFails, kf.Obligation)
		if !printed[line] {
			printed[line] = true
			fmt.Println(line)
		}
	}
	for _, o := range violations {
		os.MkdirAll(replayDir, 0o755)
		path, reproduced := g.writeReplay(o, replayDir, work, *repo, *verif, *prop)
		suffix := ""
		if !reproduced {
			suffix = " no-failing-input-found"
		}
		fmt.Printf("VIOLATION property=%s replay=%s obligation=%s%s\n", *prop, path, o.Name, suffix)
	}
	// evidence
	discharged := 0
	var solverSecs float64
	backends := map[string]int{}
	var perOb []map[string]any
	repOfFx := map[*fx]*fnReport{}
	repOfFn := map[string]*fnReport{}
	for _, r := range reports {
		if x := fxs[r.Function]; x != nil {
			repOfFx[x] = r
		}
		if _, dup := repOfFn[r.Function]; !dup {
			repOfFn[r.Function] = r
		}
	}
	for _, o := range proofObs {
		r := repOfFx[o.fx]
		if r == nil {
			r = repOfFn[o.Fn]
		}
		if r != nil {
			r.Obligations++
			if o.Status == "proved" {
				r.Discharged++
			}
		}
		if o.Status == "proved" {
			discharged++
			backends[o.Backend]++
		}
		solverSecs += o.Secs
		perOb = append(perOb, map[string]any{"name": o.Name, "status": o.Status, "backend": o.Backend, "solver_s": round3(o.Secs), "kind": o.Kind})
	}
	var samples []any
	for _, o := range proofObs {
		if (o.Kind == "post" || o.Kind == "lemma" || o.Kind == "inv") && len(samples) < 6 && o.fx != nil {
			samples = append(samples, map[string]any{"obligation": o.Name, "description": o.Desc, "status": o.Status, "backend": o.Backend,
				"goal_smt": truncate(o.Goal, 600), "path_condition": truncate(o.PC, 200), "assumptions_in_scope": o.NSteps})
		}
	}
	if len(samples) == 0 && len(proofObs) > 0 {
		o := proofObs[0]
		samples = append(samples, map[string]any{"obligation": o.Name, "description": o.Desc, "status": o.Status})
	}
	vac := map[string]int{}
	for _, o := range canaries {
		vac[o.Status]++
	}
	sort.Strings(trustedUsed)
	trustedUsed = uniq(trustedUsed)
	trusted := append([]string{
		"vcgen itself (SSA->SMT translation, memory model, spec evaluation) - mitigated by the must-fail selftest corpus, not eliminated",
		"golang.org/x/tools/go/ssa v0.50.0 faithfully represents the compiled program; Go compiler and runtime",
		"SMT solvers' unsat answers (z3 5.1.0, z3 4.8.12, cvc5 1.0.3 raced; first definitive answer wins)",
	}, trustedUsed...)
	asm := []string{
		"sequential execution only (no goroutine interleavings)",
		"64-bit int, little-endian host",
		"termination only where a decreases clause is given",
		"slice lengths, capacities and offsets are at most 2^40 elements",
	}
	for a := range assumptions {
		asm = append(asm, a)
	}
	sort.Strings(asm)
	nKnownObs := len(known)
	ev := map[string]any{
		"property_id": *prop,
		"tier":        *tier,
		"seed":        seed,
		"level":       "proof",
		"coverage": map[string]any{
			"obligations":               len(proofObs) - nKnownObs,
			"discharged":                discharged,
			"known_finding_obligations": nKnownObs,
			"checker_cmd":               fmt.Sprintf("./check %s %s", *prop, *tier),
			"trusted_base":              trusted,
			"samples":                   samples,
			"functions_under_contract":  reports,
			"lemmas":                    lemmaNames(lemmas),
			"backends":                  backends,
			"per_obligation":            perOb,
			"vacuity_canaries":          vac,
			"bounded_standins":          boundedRes,
			"unreachable_returns":       unreachable,
			"solver_cpu_s":              round3(solverSecs),
			"solver_wall_s":             round3(solveWall),
			"load_ssa_s":                round3(loadSecs),
			"explanation":               "obligations are generated from the go/ssa form of the functions in /repo's working tree against the //@ contracts in contracts_verif.go; each is an SMT query; 'discharged' counts unsat answers",
		},
		"assumptions": asm,
		"wall_s":      round3(time.Since(t0).Seconds()),
		"violations":  len(violations),
	}
	if *only == "" && *writeEvidence {
		os.MkdirAll(filepath.Join(*verif, "evidence"), 0o755)
		b, _ := json.MarshalIndent(ev, "", " ")
		os.WriteFile(filepath.Join(*verif, "evidence", *prop+".json"), b, 0o644)
	}
	for _, o := range proofObs {
		if o.Secs > 8 {
			fmt.Printf("  slow: %s %.1fs (%s)\n", o.Name, o.Secs, o.Backend)
		}
	}
	fmt.Printf("property=%s tier=%s functions=%d lemmas=%d obligations=%d discharged=%d known=%d violations=%d canaries=%v wall=%.1fs\n",
		*prop, *tier, len(cs), len(lemmas), len(proofObs), discharged, nKnownObs, len(violations), vac, time.Since(t0).Seconds())
	if len(violations) > 0 {
		return 1
	}
	return 0
}

func lemmaNames(ls []*Lemma) []string {
	var out []string
	for _, l := range ls {
		out = append(out, l.Pkg+"."+l.Name)
	}
	return out
}

func uniq(ss []string) []string {
	var out []string
	for i, s := range ss {
		if i == 0 || s != ss[i-1] {
			out = append(out, s)
		}
	}
	return out
}

func truncate(s string, n int) string {
	if len(s) > n {
		return s[:n] + "..."
	}
	return s
}

func round3(f float64) float64 { return float64(int(f*1000+0.5)) / 1000 }

// obligationMatches: known-finding entries name obligations without the
// return-site suffix.
func obligationMatches(name, pattern string) bool {
	if name == pattern {
		return true
	}
	if i := strings.Index(name, "@ret"); i >= 0 && name[:i] == pattern {
		return true
	}
	return false
}

// coveredByFinding re-solves the failed obligation with the finding's witness
// class excluded; only if it is then discharged is the failure attributed to
// the known finding.
func (g *Gen) coveredByFinding(o *Oblig, kf *KnownFinding, fxs map[string]*fx, work string) bool {
	if o.fx == nil || kf.Exclude == "" {
		return false
	}
	x := o.fx
	e, err := ParseExpr(kf.Exclude)
	if err != nil {
		return false
	}
	var excl string
	func() {
		defer func() {
			if r := recover(); r != nil {
				excl = ""
			}
		}()
		save := x.curMem
		x.curMem = x.entryMem
		excl = x.evalBool(e, x.paramEnv(x.entryMem))
		x.curMem = save
	}()
	if excl == "" {
		return false
	}
	o2 := *o
	o2.Name = o.Name + "~excluding-known"
	o2.Status, o2.Backend, o2.Output = "", "", ""
	file := obFile(work, &o2)
	os.WriteFile(file, []byte(o.Query(false, "(assert (not "+excl+"))")), 0o644)
	for _, sp := range solvers {
		res, _, _ := runSolver(nil2ctx(), sp, file, 20)
		if res == "unsat" {
			return true
		}
		if res == "sat" {
			return false
		}
	}
	return false
}
