package main

// Spec expression language used in contracts (requires / ensures / invariant /
// decreases / lemma bodies).  It is Go expression syntax restricted to the
// side-effect free part, plus:
//
//	a ==> b, a <==> b          implication / equivalence (lowest precedence)
//	forall k in lo..hi: P      bounded universal quantifier (hi exclusive)
//	exists k in lo..hi: P      bounded existential quantifier
//	forall k: P                unbounded quantifier over int (spec only)
//	old(e)                     e evaluated in the function's entry state
//	result, result0, result1   the returned value(s)
//	c ? a : b                  conditional expression
//
// Every expression can be compiled both to SMT-LIB (proof) and, for the
// bounded-quantifier fragment, to Go (replay of counterexamples).

import (
	"fmt"
	"strings"
)

type Expr struct {
	Op   string // "num","id","call","index","slice","field","un","bin","forall","exists","old","cond","str"
	Name string // identifier, operator, field name, bound variable
	Num  string
	Args []*Expr
}

func (e *Expr) String() string {
	switch e.Op {
	case "num":
		return e.Num
	case "id":
		return e.Name
	case "str":
		return fmt.Sprintf("%q", e.Name)
	case "call":
		var a []string
		for _, x := range e.Args[1:] {
			a = append(a, x.String())
		}
		return e.Args[0].String() + "(" + strings.Join(a, ", ") + ")"
	case "index":
		return e.Args[0].String() + "[" + e.Args[1].String() + "]"
	case "slice":
		s := e.Args[0].String() + "["
		if e.Args[1] != nil {
			s += e.Args[1].String()
		}
		s += ":"
		if e.Args[2] != nil {
			s += e.Args[2].String()
		}
		return s + "]"
	case "field":
		return e.Args[0].String() + "." + e.Name
	case "un":
		return e.Name + e.Args[0].String()
	case "bin":
		return "(" + e.Args[0].String() + " " + e.Name + " " + e.Args[1].String() + ")"
	case "forall", "exists":
		if len(e.Args) == 3 {
			return fmt.Sprintf("(%s %s in %s..%s: %s)", e.Op, e.Name, e.Args[0], e.Args[1], e.Args[2])
		}
		return fmt.Sprintf("(%s %s: %s)", e.Op, e.Name, e.Args[0])
	case "old":
		return "old(" + e.Args[0].String() + ")"
	case "athead":
		return "athead(" + e.Args[0].String() + ")"
	case "cond":
		return "(" + e.Args[0].String() + " ? " + e.Args[1].String() + " : " + e.Args[2].String() + ")"
	}
	return "?"
}

type tok struct {
	k string // "id","num","op","str","eof"
	s string
}

func lexExpr(src string) ([]tok, error) {
	var out []tok
	i := 0
	for i < len(src) {
		c := src[i]
		switch {
		case c == ' ' || c == '\t':
			i++
		case c == '"':
			j := i + 1
			for j < len(src) && src[j] != '"' {
				j++
			}
			if j >= len(src) {
				return nil, fmt.Errorf("unterminated string")
			}
			out = append(out, tok{"str", src[i+1 : j]})
			i = j + 1
		case c >= '0' && c <= '9':
			j := i
			for j < len(src) && (isIdent(src[j]) || src[j] == 'x') {
				j++
			}
			out = append(out, tok{"num", strings.ReplaceAll(src[i:j], "_", "")})
			i = j
		case isIdentStart(c):
			j := i
			for j < len(src) && (isIdent(src[j]) || src[j] == '$' || src[j] == '#') {
				j++
			}
			out = append(out, tok{"id", src[i:j]})
			i = j
		default:
			ops := []string{"<==>", "==>", "&&", "||", "==", "!=", "<=", ">=", "<<", ">>", "&^", "..",
				"+", "-", "*", "/", "%", "&", "|", "^", "<", ">", "!", "(", ")", "[", "]", ".", ",", ":", "?"}
			found := false
			for _, op := range ops {
				if strings.HasPrefix(src[i:], op) {
					out = append(out, tok{"op", op})
					i += len(op)
					found = true
					break
				}
			}
			if !found {
				return nil, fmt.Errorf("unexpected character %q in %q", c, src)
			}
		}
	}
	out = append(out, tok{"eof", ""})
	return out, nil
}

func isIdentStart(c byte) bool {
	return c == '_' || (c >= 'a' && c <= 'z') || (c >= 'A' && c <= 'Z')
}
func isIdent(c byte) bool { return isIdentStart(c) || (c >= '0' && c <= '9') }

type exprParser struct {
	toks []tok
	pos  int
	src  string
}

func ParseExpr(src string) (e *Expr, err error) {
	toks, err := lexExpr(src)
	if err != nil {
		return nil, err
	}
	p := &exprParser{toks: toks, src: src}
	defer func() {
		if r := recover(); r != nil {
			if s, ok := r.(parseErr); ok {
				err = fmt.Errorf("%s in %q", string(s), src)
				return
			}
			panic(r)
		}
	}()
	e = p.parseTop()
	if p.peek().k != "eof" {
		p.fail("trailing tokens at %q", p.peek().s)
	}
	return e, nil
}

type parseErr string

func (p *exprParser) fail(f string, a ...any) { panic(parseErr(fmt.Sprintf(f, a...))) }
func (p *exprParser) peek() tok              { return p.toks[p.pos] }
func (p *exprParser) next() tok              { t := p.toks[p.pos]; p.pos++; return t }
func (p *exprParser) isOp(s string) bool     { t := p.peek(); return t.k == "op" && t.s == s }
func (p *exprParser) expect(s string) {
	if !p.isOp(s) {
		p.fail("expected %q, found %q", s, p.peek().s)
	}
	p.pos++
}

// precedence levels, lowest first
func (p *exprParser) parseTop() *Expr {
	// quantifiers extend as far right as possible
	if t := p.peek(); t.k == "id" && (t.s == "forall" || t.s == "exists") {
		return p.parseQuant()
	}
	return p.parseCond()
}

func (p *exprParser) parseQuant() *Expr {
	q := p.next().s
	v := p.next()
	if v.k != "id" {
		p.fail("quantifier needs a bound variable")
	}
	if t := p.peek(); t.k == "id" && t.s == "in" {
		p.next()
		lo := p.parseBin(4)
		p.expect("..")
		hi := p.parseBin(4)
		p.expect(":")
		body := p.parseTop()
		return &Expr{Op: q, Name: v.s, Args: []*Expr{lo, hi, body}}
	}
	p.expect(":")
	body := p.parseTop()
	return &Expr{Op: q, Name: v.s, Args: []*Expr{body}}
}

func (p *exprParser) parseCond() *Expr {
	c := p.parseIff()
	if p.isOp("?") {
		p.next()
		a := p.parseTop()
		p.expect(":")
		b := p.parseTop()
		return &Expr{Op: "cond", Args: []*Expr{c, a, b}}
	}
	return c
}

func (p *exprParser) parseIff() *Expr {
	l := p.parseImp()
	for p.isOp("<==>") {
		p.next()
		r := p.parseImp()
		l = &Expr{Op: "bin", Name: "<==>", Args: []*Expr{l, r}}
	}
	return l
}

func (p *exprParser) parseImp() *Expr {
	l := p.parseBin(1)
	if p.isOp("==>") {
		p.next()
		var r *Expr
		if t := p.peek(); t.k == "id" && (t.s == "forall" || t.s == "exists") {
			r = p.parseQuant()
		} else {
			r = p.parseImp()
		}
		return &Expr{Op: "bin", Name: "==>", Args: []*Expr{l, r}}
	}
	return l
}

var binPrec = map[string]int{
	"||": 1, "&&": 2,
	"==": 3, "!=": 3, "<": 3, "<=": 3, ">": 3, ">=": 3,
	"+": 4, "-": 4, "|": 4, "^": 4,
	"*": 5, "/": 5, "%": 5, "<<": 5, ">>": 5, "&": 5, "&^": 5,
}

func (p *exprParser) parseBin(min int) *Expr {
	l := p.parseUnary()
	for {
		t := p.peek()
		if t.k != "op" {
			return l
		}
		pr, ok := binPrec[t.s]
		if !ok || pr < min {
			return l
		}
		p.next()
		var r *Expr
		if tt := p.peek(); tt.k == "id" && (tt.s == "forall" || tt.s == "exists") && (t.s == "&&" || t.s == "||") {
			r = p.parseQuant()
		} else {
			r = p.parseBin(pr + 1)
		}
		l = &Expr{Op: "bin", Name: t.s, Args: []*Expr{l, r}}
	}
}

func (p *exprParser) parseUnary() *Expr {
	t := p.peek()
	if t.k == "op" && (t.s == "!" || t.s == "-" || t.s == "^") {
		p.next()
		x := p.parseUnary()
		return &Expr{Op: "un", Name: t.s, Args: []*Expr{x}}
	}
	return p.parsePostfix()
}

func (p *exprParser) parsePostfix() *Expr {
	var e *Expr
	t := p.next()
	switch {
	case t.k == "num":
		e = &Expr{Op: "num", Num: t.s}
	case t.k == "str":
		e = &Expr{Op: "str", Name: t.s}
	case t.k == "id":
		if t.s == "old" && p.isOp("(") {
			p.next()
			x := p.parseTop()
			p.expect(")")
			e = &Expr{Op: "old", Args: []*Expr{x}}
		} else if t.s == "athead" && p.isOp("(") {
			p.next()
			x := p.parseTop()
			p.expect(")")
			e = &Expr{Op: "athead", Args: []*Expr{x}}
		} else {
			e = &Expr{Op: "id", Name: t.s}
		}
	case t.k == "op" && t.s == "(":
		e = p.parseTop()
		p.expect(")")
	default:
		p.fail("unexpected token %q", t.s)
	}
	for {
		switch {
		case p.isOp("."):
			p.next()
			f := p.next()
			if f.k != "id" {
				p.fail("field name expected")
			}
			e = &Expr{Op: "field", Name: f.s, Args: []*Expr{e}}
		case p.isOp("("):
			p.next()
			args := []*Expr{e}
			for !p.isOp(")") {
				args = append(args, p.parseTop())
				if p.isOp(",") {
					p.next()
				}
			}
			p.expect(")")
			e = &Expr{Op: "call", Args: args}
		case p.isOp("["):
			p.next()
			var lo, hi *Expr
			if !p.isOp(":") {
				lo = p.parseTop()
			}
			if p.isOp(":") {
				p.next()
				if !p.isOp("]") {
					hi = p.parseTop()
				}
				p.expect("]")
				e = &Expr{Op: "slice", Args: []*Expr{e, lo, hi}}
			} else {
				p.expect("]")
				e = &Expr{Op: "index", Args: []*Expr{e, lo}}
			}
		default:
			return e
		}
	}
}
