package main

import (
	"fmt"
	"regexp"
	"go/token"
	"go/types"
	"sort"
	"strings"

	"golang.org/x/tools/go/ssa"
)

// Oblig is one proof obligation: under the first NSteps assumptions and the
// path condition PC, Goal must hold.
type Oblig struct {
	Fn     string
	Name   string
	Kind   string // post inv pre safe frame dec canary binds lemma
	PC     string
	Goal   string
	NSteps int
	Desc   string
	Expect string // "unsat" (proof) or "sat" (canary)
	Src    string // contract clause text
	Line   int    // contract line
	fx     *fx
	// results
	Status  string // proved failed unknown
	Backend string
	Secs    float64
	Model   string
	Output  string
	ReplayInfo map[string]any
	ForceFilter bool // query built from the cone of influence of the goal only
	ShortBudget bool // expected to fail (open known finding): short solver budget
}

type region struct {
	mem         string
	ref, lo, hi string
	// sub, when non-nil, narrows a one-cell region of a struct-valued field to the
	// nested component it selects (fields only); subT is the type of the cell.
	sub  []pathEl
	subT types.Type
}

// subPrefix reports whether path a (fields only) is a prefix of path b.
func subPrefix(a, b []pathEl) bool {
	if len(a) > len(b) {
		return false
	}
	for i := range a {
		if a[i].IsIdx || b[i].IsIdx || a[i].Field != b[i].Field {
			return false
		}
	}
	return true
}

type loopInfo struct {
	header   *ssa.BasicBlock
	body     map[int]bool
	backs    []*ssa.BasicBlock
	ordinal  int
	writes   map[string]bool
	havocAll bool
}

type fx struct {
	g    *Gen
	fn   *ssa.Function
	c    *Contract
	mode Mode
	pass int

	sorts    []string
	sortSeen map[string]bool
	decls    []string
	declSeen map[string]bool
	steps    []string
	obs      []*Oblig
	counters map[string]int

	memSort map[string]string
	memType map[string]types.Type
	nmem    int
	nver    int
	nfresh  int

	curBlock *ssa.BasicBlock
	curPC    string
	curMem   *memNode

	written    map[int]map[string]bool
	havocAllIn map[int]bool

	vals      map[ssa.Value]*Val
	entryMem  *memNode
	top0      string
	regions   []region
	freshRefs map[string]bool
	closures  map[ssa.Value]*ssa.MakeClosure

	loops     map[int]*loopInfo // by header block index
	loopList  []*loopInfo
	nameIn    []map[string]ssa.Value
	blockPC   map[int]string
	blockMem  map[int]*memNode // memory at block exit
	headerVal map[int]map[string]*Val
	measures  map[int][]string
	defers    []*ssa.Defer

	abstracted  map[string]bool
	assumptions map[string]bool
	calls       map[string]bool // callee contracts used
	trusted     map[string]bool
	retCount    int
	warnings    []string
	usedSpecs   map[string]bool
	localAlloc  map[string]*ssa.Alloc
	cellRefs    []cellRef
	curCallee   *ssa.CallCommon
	keepAllRegs []region
	keepAllInit  bool
	sentinelRefs     map[string]bool // object ids of imported sentinel error variables (io.EOF, ErrXxx)
	exitCount        map[int]int    // exit edges seen so far, per loop ordinal (names of assert exit=N obligations)
	atHead           map[*Expr]*Val // athead(e) operands of assert back=N clauses, evaluated at the loop head
	assertSeen       map[int]bool // assert clauses whose call site / return exists in the function
	ensuresEvaluated map[int]bool // ensures clauses evaluated at some return (a clause over locals in scope at no return is vacuous)
	pcOverride   string // guard used by assume instead of curPC (lazily resolved frames)
	pcOverrideOn bool
	pendingGhostMods map[string]bool // ghost memories the callee being applied may change
	boundNames   []string // quantifier variables whose body is being evaluated
	heapAllocs   []heapAlloc
	keepAllLocal []*Expr // keepsall expressions over locals, evaluated per call
	localRefs   []string // refs of non-escaping locals of this activation
	curInstr    ssa.Instruction
	ghostHavocIsUnmodelled bool
	callOrd     map[*ssa.Call]int
	ghosts      map[string]*Val
	hide        map[string]bool
}

func (x *fx) declare(name, sort string) {
	if x.declSeen[name] {
		return
	}
	x.declSeen[name] = true
	x.decls = append(x.decls, fmt.Sprintf("(declare-const %s %s)", name, sort))
}

func (x *fx) declareFun(name string, args []string, ret string) {
	if x.declSeen[name] {
		return
	}
	x.declSeen[name] = true
	x.decls = append(x.decls, fmt.Sprintf("(declare-fun %s (%s) %s)", name, strings.Join(args, " "), ret))
}

var defRe = regexp.MustCompile(`^\(= \|[^|]+\| `)

// assume records an assumption.  While a block is being executed, anything
// that is not a definition of a named symbol (|x| = term) is guarded by the
// block's path condition: facts such as "the value loaded here is well-formed"
// hold only if the block is reached, and stating them unconditionally would
// constrain the other paths (a vacuity hole found by the return canaries).
func (x *fx) assume(f string) {
	if f == "true" {
		return
	}
	// a side fact produced while a quantifier's body is evaluated must not leak
	// the bound variable to the top level: it is dropped (fewer assumptions)
	for _, bn := range x.boundNames {
		if strings.Contains(f, bn) && !strings.Contains(f, "(("+bn+" ") {
			return
		}
	}
	pc := x.curPC
	if x.pcOverrideOn {
		pc = x.pcOverride
	}
	if x.curBlock != nil && pc != "true" && pc != "" && !defRe.MatchString(f) {
		f = "(=> " + pc + " " + f + ")"
	}
	x.steps = append(x.steps, f)
}

func (x *fx) assumeAt(pc, f string) {
	if f == "true" {
		return
	}
	if pc == "true" {
		x.assume(f)
		return
	}
	x.assume("(=> " + pc + " " + f + ")")
}

func (x *fx) fresh(prefix, sort string) string {
	x.nfresh++
	n := fmt.Sprintf("|%s!%d|", prefix, x.nfresh)
	x.declare(n, sort)
	return n
}

func (x *fx) oblige(kind, label, goal, desc string) *Oblig {
	if goal == "true" {
		return nil
	}
	if kind == "safe" && x.c.NoPanicOff && !x.c.KeepSafe[label] {
		// nosafety: no obligation, but execution only continues past this point
		// when the operation did not panic
		x.assumeAt(x.curPC, goal)
		return nil
	}
	key := kind + ":" + label
	x.counters[key]++
	name := fmt.Sprintf("%s#%s", x.cname(), key)
	if n := x.counters[key]; n > 1 || kind == "safe" || kind == "frame" || kind == "pre" {
		name = fmt.Sprintf("%s@%d", name, x.counters[key])
	}
	o := &Oblig{Fn: x.c.Pkg + "." + x.c.Name, Name: x.pkgShort() + "." + name, Kind: kind, PC: x.curPC, Goal: goal, NSteps: len(x.steps), Desc: desc, Expect: "unsat", fx: x}
	x.obs = append(x.obs, o)
	x.assumeAt(x.curPC, goal)
	return o
}

func (x *fx) cname() string {
	if x.c.Variant != "" {
		return x.c.Name + "~" + x.c.Variant
	}
	return x.c.Name
}

func (x *fx) pkgShort() string {
	p := x.c.Pkg
	if i := strings.LastIndex(p, "/"); i >= 0 {
		p = p[i+1:]
	}
	if p == "parquet-go" {
		p = "parquet"
	}
	return p
}

func (x *fx) and(a ...string) string {
	var out []string
	for _, s := range a {
		if s == "true" {
			continue
		}
		if s == "false" {
			return "false"
		}
		out = append(out, s)
	}
	switch len(out) {
	case 0:
		return "true"
	case 1:
		return out[0]
	}
	return "(and " + strings.Join(out, " ") + ")"
}

func (x *fx) or(a ...string) string {
	var out []string
	for _, s := range a {
		if s == "false" {
			continue
		}
		if s == "true" {
			return "true"
		}
		out = append(out, s)
	}
	switch len(out) {
	case 0:
		return "false"
	case 1:
		return out[0]
	}
	return "(or " + strings.Join(out, " ") + ")"
}

func not(a string) string {
	switch a {
	case "true":
		return "false"
	case "false":
		return "true"
	}
	return "(not " + a + ")"
}

// ---------------------------------------------------------------------------

func newFx(g *Gen, fn *ssa.Function, c *Contract, pass int) *fx {
	x := &fx{g: g, fn: fn, c: c, mode: c.Mode, pass: pass,
		sortSeen: map[string]bool{}, declSeen: map[string]bool{}, counters: map[string]int{},
		memSort: map[string]string{}, memType: map[string]types.Type{},
		written: map[int]map[string]bool{}, havocAllIn: map[int]bool{},
		vals: map[ssa.Value]*Val{}, freshRefs: map[string]bool{}, closures: map[ssa.Value]*ssa.MakeClosure{},
		blockPC: map[int]string{}, blockMem: map[int]*memNode{}, headerVal: map[int]map[string]*Val{}, measures: map[int][]string{},
		hide: c.Hide, ghosts: map[string]*Val{}, localAlloc: map[string]*ssa.Alloc{},
		abstracted: map[string]bool{}, assumptions: map[string]bool{}, calls: map[string]bool{}, trusted: map[string]bool{},
	}
	x.memSort["$top"] = "Int"
	return x
}

func (x *fx) preamble() string {
	var b strings.Builder
	idx := x.idxSort()
	fmt.Fprintf(&b, "(declare-datatypes ((Slice 0)) (((mk-slice (s-base Int) (s-off %s) (s-len %s) (s-cap %s)))))\n", idx, idx, idx)
	fmt.Fprintf(&b, "(declare-datatypes ((Ptr 0)) (((mk-ptr (p-ref Int) (p-off %s)))))\n", idx)
	b.WriteString("(declare-datatypes ((Iface 0)) (((mk-iface (i-type Int) (i-val Int)))))\n")
	return b.String()
}

func (x *fx) analyzeLoops() {
	x.loops = map[int]*loopInfo{}
	for _, b := range x.fn.Blocks {
		for _, s := range b.Succs {
			if s.Dominates(b) {
				li := x.loops[s.Index]
				if li == nil {
					li = &loopInfo{header: s, body: map[int]bool{s.Index: true}}
					x.loops[s.Index] = li
				}
				li.backs = append(li.backs, b)
				// natural loop body
				var stack []*ssa.BasicBlock
				if !li.body[b.Index] {
					li.body[b.Index] = true
					stack = append(stack, b)
				}
				for len(stack) > 0 {
					n := stack[len(stack)-1]
					stack = stack[:len(stack)-1]
					for _, p := range n.Preds {
						if !li.body[p.Index] {
							li.body[p.Index] = true
							stack = append(stack, p)
						}
					}
				}
			}
		}
	}
	var hs []int
	for h := range x.loops {
		hs = append(hs, h)
	}
	// loop ordinal: source position of the loop (position of the first
	// positioned instruction in the header or its body), ties by block index
	pos := func(li *loopInfo) token.Pos {
		best := token.NoPos
		for bi := range li.body {
			for _, in := range x.fn.Blocks[bi].Instrs {
				if _, isPhi := in.(*ssa.Phi); isPhi {
					continue // a phi carries the position of the variable's declaration
				}
				if p := in.Pos(); p.IsValid() && (best == token.NoPos || p < best) {
					best = p
				}
			}
		}
		return best
	}
	sort.Slice(hs, func(i, j int) bool {
		pi, pj := pos(x.loops[hs[i]]), pos(x.loops[hs[j]])
		if pi != pj {
			return pi < pj
		}
		return hs[i] < hs[j]
	})
	for i, h := range hs {
		x.loops[h].ordinal = i + 1
		x.loopList = append(x.loopList, x.loops[h])
	}
}

func (x *fx) isBackEdge(from, to *ssa.BasicBlock) bool {
	return to.Dominates(from)
}

func (x *fx) topoOrder() []*ssa.BasicBlock {
	seen := map[int]bool{}
	var post []*ssa.BasicBlock
	var dfs func(b *ssa.BasicBlock)
	dfs = func(b *ssa.BasicBlock) {
		seen[b.Index] = true
		for _, s := range b.Succs {
			if x.isBackEdge(b, s) || seen[s.Index] {
				continue
			}
			dfs(s)
		}
		post = append(post, b)
	}
	dfs(x.fn.Blocks[0])
	for i, j := 0, len(post)-1; i < j; i, j = i+1, j-1 {
		post[i], post[j] = post[j], post[i]
	}
	return post
}

// computeNames: forward dataflow of "source variable name -> SSA value" using
// phi comments and DebugRef instructions.
func (x *fx) computeNames() {
	n := len(x.fn.Blocks)
	in := make([]map[string]ssa.Value, n)
	out := make([]map[string]ssa.Value, n)
	entry := map[string]ssa.Value{}
	for _, p := range x.fn.Params {
		entry[p.Name()] = p
	}
	for _, p := range x.fn.FreeVars {
		entry[p.Name()] = p
	}
	order := x.topoOrder()
	transfer := func(b *ssa.BasicBlock, m map[string]ssa.Value) map[string]ssa.Value {
		o := map[string]ssa.Value{}
		for k, v := range m {
			o[k] = v
		}
		for _, in := range b.Instrs {
			switch i := in.(type) {
			case *ssa.Phi:
				if i.Comment != "" {
					o[i.Comment] = i
				}
			case *ssa.DebugRef:
				if !i.IsAddr {
					if obj := i.Object(); obj != nil {
						if _, ok := obj.(*types.Var); ok {
							o[obj.Name()] = i.X
						}
					}
				}
			}
		}
		return o
	}
	for iter := 0; iter < 10; iter++ {
		changed := false
		for _, b := range order {
			var m map[string]ssa.Value
			if b.Index == 0 {
				m = entry
			} else {
				first := true
				for _, p := range b.Preds {
					po := out[p.Index]
					if po == nil {
						continue // not yet computed (back edge on first iteration)
					}
					if first {
						m = map[string]ssa.Value{}
						for k, v := range po {
							m[k] = v
						}
						first = false
					} else {
						for k, v := range m {
							if po[k] != v {
								delete(m, k)
							}
						}
					}
				}
				if m == nil {
					m = map[string]ssa.Value{}
				}
			}
			no := transfer(b, m)
			if !sameNames(in[b.Index], m) || !sameNames(out[b.Index], no) {
				changed = true
			}
			in[b.Index] = m
			out[b.Index] = no
		}
		if !changed {
			break
		}
	}
	x.nameIn = in
}

func sameNames(a, b map[string]ssa.Value) bool {
	if a == nil || len(a) != len(b) {
		return false
	}
	for k, v := range a {
		if b[k] != v {
			return false
		}
	}
	return true
}

// valOf returns the symbolic value of an SSA value.
func (x *fx) valOf(v ssa.Value) *Val {
	if r, ok := x.vals[v]; ok {
		return r
	}
	switch c := v.(type) {
	case *ssa.Const:
		r := x.constVal(c.Value, c.Type())
		return r
	case *ssa.Global:
		id := x.g.globalID(c)
		if c.Pkg != nil && x.fn != nil && c.Pkg != x.fn.Pkg && (strings.HasPrefix(c.Name(), "Err") || c.Name() == "EOF") {
			// a sentinel error variable of another package: nothing reassigns it
			if x.sentinelRefs == nil {
				x.sentinelRefs = map[string]bool{}
			}
			x.sentinelRefs[fmt.Sprint(id)] = true
		}
		r := &Val{T: c.Type(), S: fmt.Sprintf("(mk-ptr %d %s)", id, x.idxConst(0))}
		x.vals[v] = r
		return r
	case *ssa.Function:
		r := &Val{T: c.Type(), S: fmt.Sprint(x.g.funcID(c))}
		x.vals[v] = r
		return r
	}
	panic(unsupported(fmt.Sprintf("value %s (%T) has no symbolic value", v.Name(), v)))
}

// defVal names an instruction's value with a constant to keep terms small.
func (x *fx) defVal(v ssa.Value, r *Val) {
	if r.Tup == nil && len(r.Path) == 0 && r.S != "" && len(r.S) > 24 {
		n := fmt.Sprintf("|%s|", v.Name())
		if x.declSeen[n] {
			n = fmt.Sprintf("|%s~%d|", v.Name(), len(x.declSeen))
		}
		x.declare(n, x.sortOf(r.T))
		x.assume("(= " + n + " " + r.S + ")")
		r = &Val{T: r.T, S: n}
	}
	x.vals[v] = r
}

// havocVal returns a fresh value of type t with its validity assumptions.
func (x *fx) havocVal(prefix string, t types.Type) *Val {
	if tup, ok := t.(*types.Tuple); ok {
		r := &Val{T: t}
		for i := 0; i < tup.Len(); i++ {
			r.Tup = append(r.Tup, x.havocVal(fmt.Sprintf("%s.%d", prefix, i), tup.At(i).Type()))
		}
		return r
	}
	if b, ok := t.(*types.Basic); ok && b.Kind() == types.Invalid {
		// an unused component of a map-range step (go/ssa gives it no type)
		return &Val{T: t, S: "0"}
	}
	n := x.fresh(prefix, x.sortOf(t))
	r := &Val{T: t, S: n}
	x.assume(x.valid(r.S, t, x.curTop()))
	return r
}

func (x *fx) curTop() string {
	if x.curMem == nil {
		return x.top0
	}
	return x.resolve(x.curMem, "$top")
}

// valid: type invariant of a value of type t (what every well-typed Go value satisfies in this model)
func (x *fx) valid(term string, t types.Type, top string) string {
	switch u := t.Underlying().(type) {
	case *types.Basic:
		switch {
		case u.Info()&types.IsInteger != 0:
			return x.inRange(term, t)
		case u.Info()&types.IsString != 0:
			z := x.idxConst(0)
			return x.and(x.ile(z, slLen(term)), "(= (s-cap "+term+") (s-len "+term+"))", x.ile(z, slOff(term)), "(< (s-base "+term+") "+top+")", x.lenBound(slLen(term)))
		case u.Kind() == types.UnsafePointer:
			return x.and("(<= 0 (p-ref "+term+"))", "(< (p-ref "+term+") "+top+")")
		}
		return "true"
	case *types.Slice:
		z := x.idxConst(0)
		return x.and(x.ile(z, slLen(term)), x.ile(slLen(term), slCap(term)), x.ile(z, slOff(term)),
			"(<= 0 (s-base "+term+"))", "(< (s-base "+term+") "+top+")", x.lenBound(slCap(term)), x.lenBound(slOff(term)),
			"(=> (= (s-base "+term+") 0) (= (s-cap "+term+") "+z+"))")
	case *types.Pointer:
		z := x.idxConst(0)
		return x.and("(<= 0 (p-ref "+term+"))", "(< (p-ref "+term+") "+top+")", x.ile(z, ptrOff(term)), x.lenBound(ptrOff(term)),
			"(=> (= (p-ref "+term+") 0) (= (p-off "+term+") "+z+"))")
	case *types.Struct:
		var cs []string
		s := x.sortOf(t)
		for i := 0; i < u.NumFields(); i++ {
			cs = append(cs, x.valid(fmt.Sprintf("(%s %s)", x.selName(s, u.Field(i).Name(), i), term), u.Field(i).Type(), top))
		}
		return x.and(cs...)
	case *types.Signature, *types.Map, *types.Chan:
		return "(<= 0 " + term + ")"
	}
	return "true"
}

// lenBound: lengths/capacities/offsets are far below 2^62 (a slice cannot
// exceed the address space); keeps index arithmetic free of overflow.
func (x *fx) lenBound(term string) string {
	if x.mode == ModeBV {
		return "(bvsle " + term + " (_ bv1099511627776 64))"
	}
	return "(<= " + term + " 1099511627776)"
}
