package main

import (
	"context"
	"encoding/json"
	"os"
	"path/filepath"
	"strings"
)

func nil2ctx() context.Context { return context.Background() }

// writeReplay writes the replay file of a failed obligation.  Where the
// function's inputs can be built from the solver's model (scalars, slices of
// scalars, pointers to arrays of scalars) the counterexample is replayed on the
// real code with a generated in-package test (go test -overlay); otherwise the
// replay file names the failed obligation and carries the solvers' output.
func (g *Gen) writeReplay(o *Oblig, dir, work, repo, verif, prop string) (string, bool) {
	path := filepath.Join(dir, fileSafe.ReplaceAllString(o.Name, "_")+".json")
	rep := map[string]any{
		"property":    prop,
		"obligation":  o.Name,
		"function":    o.Fn,
		"kind":        o.Kind,
		"description": o.Desc,
		"contract":    o.Src,
		"status":      o.Status,
		"solver_output": func() string {
			if o.Status == "failed" {
				return "sat (" + o.Backend + "): the negated obligation is satisfiable\n" + truncate(o.Output, 2000)
			}
			return truncate(o.Output, 4000)
		}(),
		"reproduced": false,
	}
	if o.fx != nil {
		rep["query_file"] = obFile(work, o)
	}
	reproduced := false
	if o.fx != nil && (o.Status == "failed" || o.Status == "unknown") {
		r := o.ReplayInfo
		if r == nil {
			r = g.replayOnRealCode(o, work, repo, verif)
		}
		if r != nil {
			for k, v := range r {
				rep[k] = v
			}
			if b, ok := r["reproduced"].(bool); ok {
				reproduced = b
			}
		}
	}
	if !reproduced {
		rep["note"] = "no-failing-input-found: " + noInputReason(o, rep)
	}
	b, _ := json.MarshalIndent(rep, "", " ")
	os.WriteFile(path, b, 0o644)
	return path, reproduced
}

func noInputReason(o *Oblig, rep map[string]any) string {
	if o.Kind == "binds" {
		return "the contract no longer binds to the code (" + o.Desc + ")"
	}
	if s, ok := rep["replay_skipped"].(string); ok {
		return s
	}
	if o.Status == "unknown" {
		return "no solver decided the obligation within the time limit (it was discharged on the unchanged tree)"
	}
	if strings.Contains(o.Name, "#inv:") {
		return "the solver's model is a state of an arbitrary loop iteration (loops are cut at their invariants), not a function input"
	}
	return "the solver's model did not reproduce on the real code (an intermediate contract or invariant is too weak for the changed code)"
}
