package main

import (
	"fmt"
	"go/token"
	"go/types"
	"math/big"
	"strconv"
	"strings"
)

func isUntyped(t types.Type) bool {
	b, ok := t.(*types.Basic)
	return ok && b.Info()&types.IsUntyped != 0
}

// constOf reports whether term is an integer literal (int mode) and returns it.
func constInt(term string) (*big.Int, bool) {
	t := strings.TrimSpace(term)
	if strings.HasPrefix(t, "(- ") && strings.HasSuffix(t, ")") {
		if v, ok := new(big.Int).SetString(t[3:len(t)-1], 10); ok {
			return v.Neg(v), true
		}
		return nil, false
	}
	if strings.HasPrefix(t, "(_ bv") {
		f := strings.Fields(t[5 : len(t)-1])
		if len(f) == 2 {
			if v, ok := new(big.Int).SetString(f[0], 10); ok {
				return v, true
			}
		}
		return nil, false
	}
	if v, ok := new(big.Int).SetString(t, 10); ok {
		return v, true
	}
	return nil, false
}

// binop implements Go's binary operators on typed values.  exec=true means
// the operation is executed by the program (overflow obligations in int
// mode); exec=false means it occurs in a specification (mathematical in int
// mode).
func (x *fx) binop(op token.Token, a, b *Val, rt types.Type, exec bool) *Val {
	t := a.T
	if isUntyped(t) {
		t = b.T
	}
	switch op {
	case token.LAND:
		return &Val{T: tBool, S: x.and(a.S, b.S)}
	case token.LOR:
		return &Val{T: tBool, S: x.or(a.S, b.S)}
	}
	switch {
	case isBool(t):
		switch op {
		case token.EQL:
			return &Val{T: tBool, S: "(= " + a.S + " " + b.S + ")"}
		case token.NEQ:
			return &Val{T: tBool, S: "(not (= " + a.S + " " + b.S + "))"}
		}
	case isFloat(t):
		m := map[token.Token]string{token.ADD: "fp.add RNE", token.SUB: "fp.sub RNE", token.MUL: "fp.mul RNE", token.QUO: "fp.div RNE",
			token.LSS: "fp.lt", token.LEQ: "fp.leq", token.GTR: "fp.gt", token.GEQ: "fp.geq", token.EQL: "fp.eq"}
		if op == token.NEQ {
			return &Val{T: tBool, S: "(not (fp.eq " + a.S + " " + b.S + "))"}
		}
		if f, ok := m[op]; ok {
			r := "(" + f + " " + a.S + " " + b.S + ")"
			switch op {
			case token.ADD, token.SUB, token.MUL, token.QUO:
				return &Val{T: t, S: r}
			}
			return &Val{T: tBool, S: r}
		}
	case isString(t):
		switch op {
		case token.EQL, token.NEQ:
			if !x.declSeen["str.eq"] {
				x.declareFun("str.eq", []string{"Slice", "Slice"}, "Bool")
				x.assume("(forall ((a Slice)) (! (str.eq a a) :pattern ((str.eq a a))))")
				x.assume("(forall ((a Slice) (b Slice)) (! (=> (str.eq a b) (= (s-len a) (s-len b))) :pattern ((str.eq a b))))")
			}
			r := "(str.eq " + a.S + " " + b.S + ")"
			if op == token.NEQ {
				r = not(r)
			}
			return &Val{T: tBool, S: r}
		case token.ADD:
			r := x.havocVal("strcat", t)
			x.assume("(= " + slLen(r.S) + " " + x.iadd(slLen(a.S), slLen(b.S)) + ")")
			return r
		default:
			x.declareFun("str.lt", []string{"Slice", "Slice"}, "Bool")
			switch op {
			case token.LSS:
				return &Val{T: tBool, S: "(str.lt " + a.S + " " + b.S + ")"}
			case token.GTR:
				return &Val{T: tBool, S: "(str.lt " + b.S + " " + a.S + ")"}
			case token.LEQ:
				return &Val{T: tBool, S: "(not (str.lt " + b.S + " " + a.S + "))"}
			case token.GEQ:
				return &Val{T: tBool, S: "(not (str.lt " + a.S + " " + b.S + "))"}
			}
		}
	}
	if _, ok := isInt(t); !ok {
		// pointers, interfaces, slices (only == nil), structs, funcs
		switch op {
		case token.EQL:
			return &Val{T: tBool, S: x.eqVals(a, b)}
		case token.NEQ:
			return &Val{T: tBool, S: not(x.eqVals(a, b))}
		}
		panic(unsupported(fmt.Sprintf("operator %s on %s", op, t)))
	}
	// integers
	w := intWidth(t)
	sg := intSigned(t)
	A, B := a.S, b.S
	cmp := func(sop, uop, iop string) *Val {
		if x.mode == ModeBV {
			o := uop
			if sg {
				o = sop
			}
			return &Val{T: tBool, S: "(" + o + " " + A + " " + B + ")"}
		}
		return &Val{T: tBool, S: "(" + iop + " " + A + " " + B + ")"}
	}
	switch op {
	case token.EQL:
		return &Val{T: tBool, S: "(= " + A + " " + B + ")"}
	case token.NEQ:
		return &Val{T: tBool, S: "(not (= " + A + " " + B + "))"}
	case token.LSS:
		return cmp("bvslt", "bvult", "<")
	case token.LEQ:
		return cmp("bvsle", "bvule", "<=")
	case token.GTR:
		return cmp("bvsgt", "bvugt", ">")
	case token.GEQ:
		return cmp("bvsge", "bvuge", ">=")
	}
	if x.mode == ModeBV {
		switch op {
		case token.ADD:
			return &Val{T: t, S: "(bvadd " + A + " " + B + ")"}
		case token.SUB:
			return &Val{T: t, S: "(bvsub " + A + " " + B + ")"}
		case token.MUL:
			return &Val{T: t, S: "(bvmul " + A + " " + B + ")"}
		case token.QUO, token.REM:
			if exec {
				if _, isC := constInt(B); !isC {
					x.oblige("safe", "div", "(not (= "+B+" "+smtBV(big.NewInt(0), w)+"))", "division by zero")
				}
			}
			o := map[bool]map[token.Token]string{true: {token.QUO: "bvsdiv", token.REM: "bvsrem"}, false: {token.QUO: "bvudiv", token.REM: "bvurem"}}[sg][op]
			return &Val{T: t, S: "(" + o + " " + A + " " + B + ")"}
		case token.AND:
			return &Val{T: t, S: "(bvand " + A + " " + B + ")"}
		case token.OR:
			return &Val{T: t, S: "(bvor " + A + " " + B + ")"}
		case token.XOR:
			return &Val{T: t, S: "(bvxor " + A + " " + B + ")"}
		case token.AND_NOT:
			return &Val{T: t, S: "(bvand " + A + " (bvnot " + B + "))"}
		case token.SHL, token.SHR:
			// shift count: convert to operand width with saturation
			bt := b.T
			if isUntyped(bt) {
				bt = t
			}
			bw := intWidth(bt)
			cnt := B
			if exec && intSigned(bt) {
				if _, isC := constInt(B); !isC {
					x.oblige("safe", "shift", "(bvsge "+B+" "+smtBV(big.NewInt(0), bw)+")", "negative shift count")
				}
			}
			switch {
			case bw < w:
				cnt = fmt.Sprintf("((_ zero_extend %d) %s)", w-bw, B)
			case bw > w:
				cnt = fmt.Sprintf("(ite (bvuge %s %s) %s ((_ extract %d 0) %s))", B, smtBV(big.NewInt(int64(w)), bw), smtBV(big.NewInt(int64(w)), w), w-1, B)
			}
			o := "bvshl"
			if op == token.SHR {
				o = "bvlshr"
				if sg {
					o = "bvashr"
				}
			}
			return &Val{T: t, S: "(" + o + " " + A + " " + cnt + ")"}
		}
		panic(unsupported("bv operator " + op.String()))
	}
	// int mode
	fin := func(r string) *Val {
		if !exec {
			return &Val{T: t, S: r}
		}
		if !sg {
			return &Val{T: t, S: x.wrapInt(r, t)}
		}
		if x.c.NoOverflow {
			x.assumptions["signed arithmetic does not overflow (nooverflow)"] = true
			return &Val{T: t, S: r}
		}
		// signed: overflow obligation, then mathematical
		if ca, ok := constInt(A); ok {
			if cb, ok := constInt(B); ok {
				_ = ca
				_ = cb
			}
		}
		x.oblige("safe", "overflow", x.inRange(r, t), fmt.Sprintf("no signed overflow in %s", op))
		return &Val{T: t, S: r}
	}
	switch op {
	case token.ADD:
		return fin("(+ " + A + " " + B + ")")
	case token.SUB:
		return fin("(- " + A + " " + B + ")")
	case token.MUL:
		return fin("(* " + A + " " + B + ")")
	case token.QUO, token.REM:
		if exec {
			if _, isC := constInt(B); !isC {
				x.oblige("safe", "div", "(not (= "+B+" 0))", "division by zero")
			}
		}
		var q string
		if cb, ok := constInt(B); ok && cb.Sign() > 0 && !sg {
			q = "(div " + A + " " + B + ")"
		} else {
			q = fmt.Sprintf("(ite (>= %s 0) (div %s %s) (- (div (- %s) %s)))", A, A, B, A, B)
		}
		if op == token.QUO {
			return &Val{T: t, S: q}
		}
		return &Val{T: t, S: fmt.Sprintf("(- %s (* %s %s))", A, B, q)}
	case token.SHL:
		if cb, ok := constInt(B); ok && cb.IsInt64() && cb.Int64() < 64 {
			r := "(* " + A + " " + pow2(int(cb.Int64())).String() + ")"
			if !exec {
				return &Val{T: t, S: r}
			}
			return &Val{T: t, S: x.wrapInt(r, t)}
		}
		x.declareFun("pow2", []string{"Int"}, "Int")
		x.assume("(and (= (pow2 0) 1) (= (pow2 1) 2) (= (pow2 2) 4) (= (pow2 3) 8))")
		x.assume("(> (pow2 " + B + ") 0)")
		r := "(* " + A + " (pow2 " + B + "))"
		if !exec {
			return &Val{T: t, S: r}
		}
		return &Val{T: t, S: x.wrapInt(r, t)}
	case token.SHR:
		if cb, ok := constInt(B); ok && cb.IsInt64() && cb.Int64() < 64 {
			return &Val{T: t, S: "(div " + A + " " + pow2(int(cb.Int64())).String() + ")"}
		}
		x.declareFun("pow2", []string{"Int"}, "Int")
		x.assume("(> (pow2 " + B + ") 0)")
		return &Val{T: t, S: "(div " + A + " (pow2 " + B + "))"}
	case token.AND:
		// x & (2^k-1) == x mod 2^k for non-negative x
		for _, pr := range [][2]string{{A, B}, {B, A}} {
			if cb, ok := constInt(pr[1]); ok && cb.Sign() >= 0 {
				m := new(big.Int).Add(cb, big.NewInt(1))
				if m.BitLen() > 0 && new(big.Int).And(m, cb).Sign() == 0 && !sg {
					return &Val{T: t, S: "(mod " + pr[0] + " " + m.String() + ")"}
				}
			}
		}
		return x.bitUF("bitand", t, A, B)
	case token.OR:
		return x.bitUF("bitor", t, A, B)
	case token.XOR:
		return x.bitUF("bitxor", t, A, B)
	case token.AND_NOT:
		return x.bitUF("bitandnot", t, A, B)
	}
	panic(unsupported("int operator " + op.String()))
}

// bitUF: bit operations in int mode are uninterpreted (only their range is known).
func (x *fx) bitUF(name string, t types.Type, a, b string) *Val {
	f := name + "." + strconv.Itoa(intWidth(t))
	if intSigned(t) {
		f += "s"
	}
	x.declareFun(f, []string{"Int", "Int"}, "Int")
	r := "(" + f + " " + a + " " + b + ")"
	x.assume(x.inRange(r, t))
	if name == "bitand" && !intSigned(t) {
		x.assume("(and (<= " + r + " " + a + ") (<= " + r + " " + b + "))")
	}
	if name == "bitor" && !intSigned(t) {
		x.assume("(and (>= " + r + " " + a + ") (>= " + r + " " + b + "))")
	}
	x.abstracted["bit operation "+name+" in int mode is uninterpreted"] = true
	return &Val{T: t, S: r}
}

func (x *fx) eqVals(a, b *Val) string {
	if isUntyped(a.T) { // nil
		a, b = b, a
	}
	if isUntyped(b.T) {
		if _, ok := a.T.Underlying().(*types.Slice); ok {
			return "(= (s-base " + a.S + ") 0)" // a slice is nil iff it has no backing storage
		}
		return "(= " + a.S + " " + x.zero(a.T) + ")"
	}
	if len(a.Path) > 0 || len(b.Path) > 0 {
		panic(unsupported("comparison of interior pointers"))
	}
	if _, ok := a.T.Underlying().(*types.Slice); ok {
		// slice == nil
		if b.S == x.nilSlice() {
			return "(= (s-base " + a.S + ") 0)"
		}
		if a.S == x.nilSlice() {
			return "(= (s-base " + b.S + ") 0)"
		}
	}
	return "(= " + a.S + " " + b.S + ")"
}
