package main

// Executable contracts: the same contract text that is compiled to SMT for the
// proof is compiled to Go for the replay.  A generated in-package test builds
// the inputs from the solver's model, evaluates `requires`, calls the real
// function and evaluates every `ensures` (bounded quantifiers become loops,
// old(x) a deep copy).  If the model does not reproduce, the same executable
// contract is run over a seeded small-scope enumeration of inputs.  The test is
// injected with `go test -overlay`; nothing is written into /repo.

import (
	"context"
	"encoding/json"
	"fmt"
	"go/types"
	"math/big"
	"os"
	"os/exec"
	"path/filepath"
	"strconv"
	"strings"
	"time"

	"golang.org/x/tools/go/ssa"
)

// ---- s-expression parsing of (get-value) output ----------------------------

type sexp struct {
	atom string
	list []*sexp
}

func parseSexps(s string) []*sexp {
	var out []*sexp
	pos := 0
	var parse func() *sexp
	skip := func() {
		for pos < len(s) && (s[pos] == ' ' || s[pos] == '\n' || s[pos] == '\t' || s[pos] == '\r') {
			pos++
		}
	}
	parse = func() *sexp {
		skip()
		if pos >= len(s) {
			return nil
		}
		if s[pos] == '(' {
			pos++
			n := &sexp{list: []*sexp{}}
			for {
				skip()
				if pos >= len(s) {
					return n
				}
				if s[pos] == ')' {
					pos++
					return n
				}
				n.list = append(n.list, parse())
			}
		}
		if s[pos] == '|' {
			j := strings.IndexByte(s[pos+1:], '|')
			a := s[pos : pos+j+2]
			pos += j + 2
			return &sexp{atom: a}
		}
		j := pos
		for j < len(s) && !strings.ContainsRune(" \n\t\r()", rune(s[j])) {
			j++
		}
		a := s[pos:j]
		pos = j
		return &sexp{atom: a}
	}
	for {
		skip()
		if pos >= len(s) {
			break
		}
		out = append(out, parse())
	}
	return out
}

// modelInt decodes an Int or BitVec model value.
func modelInt(v *sexp, signedWidth int) (*big.Int, bool) {
	if v == nil {
		return nil, false
	}
	if v.list == nil {
		a := v.atom
		switch {
		case strings.HasPrefix(a, "#x"):
			n, ok := new(big.Int).SetString(a[2:], 16)
			if ok && signedWidth > 0 && n.Bit(signedWidth-1) == 1 {
				n.Sub(n, pow2(signedWidth))
			}
			return n, ok
		case strings.HasPrefix(a, "#b"):
			n, ok := new(big.Int).SetString(a[2:], 2)
			if ok && signedWidth > 0 && n.Bit(signedWidth-1) == 1 {
				n.Sub(n, pow2(signedWidth))
			}
			return n, ok
		}
		n, ok := new(big.Int).SetString(a, 10)
		return n, ok
	}
	if len(v.list) == 2 && v.list[0].atom == "-" {
		n, ok := modelInt(v.list[1], 0)
		if ok {
			return n.Neg(n), true
		}
	}
	if len(v.list) == 3 && v.list[0].atom == "_" && strings.HasPrefix(v.list[1].atom, "bv") {
		n, ok := new(big.Int).SetString(v.list[1].atom[2:], 10)
		w, _ := strconv.Atoi(v.list[2].atom)
		if ok && signedWidth > 0 && w == signedWidth && n.Bit(w-1) == 1 {
			n.Sub(n, pow2(w))
		}
		return n, ok
	}
	return nil, false
}

// ---- replayable parameter kinds -------------------------------------------

type rparam struct {
	name   string
	t      types.Type
	kind   string // int bool slice arrayptr
	elem   types.Type
	n      int64 // array length
	goType string
}

func goTypeString(t types.Type, pkg *types.Package) string {
	return types.TypeString(t, func(p *types.Package) string {
		if p == pkg {
			return ""
		}
		return p.Name()
	})
}

func (x *fx) replayParams() ([]rparam, string) {
	var out []rparam
	if len(x.fn.FreeVars) > 0 {
		return nil, "closure with captured variables"
	}
	// a method is replayable when its receiver is itself a replayable value
	// (slice or pointer to array of scalars); it is then called as recv.M(args)
	pkg := x.fn.Pkg
	var tp *types.Package
	if pkg != nil {
		tp = pkg.Pkg
	} else if o := x.fn.Origin(); o != nil && o.Pkg != nil {
		tp = o.Pkg.Pkg
	}
	type pv struct {
		name string
		t    types.Type
	}
	var pvs []pv
	for _, p := range x.fn.Params {
		pvs = append(pvs, pv{p.Name(), p.Type()})
	}
	if len(pvs) == 0 {
		// a function without a Go body (assembly): parameters from the signature
		if rv := x.fn.Signature.Recv(); rv != nil {
			pvs = append(pvs, pv{rv.Name(), rv.Type()})
		}
		sp := x.fn.Signature.Params()
		for k := 0; k < sp.Len(); k++ {
			pvs = append(pvs, pv{sp.At(k).Name(), sp.At(k).Type()})
		}
	}
	for _, p := range pvs {
		p := struct {
			n string
			t types.Type
		}{p.name, p.t}
		rp := rparam{name: p.n, t: p.t, goType: goTypeString(p.t, tp)}
		switch u := p.t.Underlying().(type) {
		case *types.Basic:
			switch {
			case u.Info()&types.IsInteger != 0:
				rp.kind = "int"
			case u.Info()&types.IsBoolean != 0:
				rp.kind = "bool"
			default:
				return nil, "parameter " + p.n + " of type " + p.t.String()
			}
		case *types.Slice:
			if a, ok := u.Elem().Underlying().(*types.Array); ok {
				// slice of arrays of integers: enumerated inputs only (bounded stand-ins)
				if _, ok := isInt(a.Elem()); ok {
					rp.kind, rp.elem, rp.n = "slicearr", a.Elem(), a.Len()
					break
				}
			}
			if _, ok := isInt(u.Elem()); !ok && !isBool(u.Elem()) {
				return nil, "parameter " + p.n + " of type " + p.t.String()
			}
			rp.kind, rp.elem = "slice", u.Elem()
		case *types.Pointer:
			a, ok := u.Elem().Underlying().(*types.Array)
			if !ok {
				return nil, "parameter " + p.n + " of type " + p.t.String()
			}
			if _, ok := isInt(a.Elem()); !ok {
				return nil, "parameter " + p.n + " of type " + p.t.String()
			}
			rp.kind, rp.elem, rp.n = "arrayptr", a.Elem(), a.Len()
		default:
			return nil, "parameter " + p.n + " of type " + p.t.String()
		}
		out = append(out, rp)
	}
	return out, ""
}

const maxReplayLen = 48

// modelInputs asks the solver for a (preferably small) model of the failed
// obligation and decodes the function's inputs as Go literals.
func (x *fx) modelInputs(o *Oblig, ps []rparam, work string) (map[string]string, string, error) {
	var gets []string
	for _, p := range ps {
		v := x.vals[x.paramByName(p.name)]
		switch p.kind {
		case "int", "bool":
			gets = append(gets, v.S)
		case "slice":
			gets = append(gets, slLen(v.S), slCap(v.S))
			for k := 0; k < maxReplayLen; k++ {
				gets = append(gets, x.memRead(x.entryMem, x.memName(p.elem), slBase(v.S), x.iadd(slOff(v.S), x.idxConst(int64(k)))))
			}
		case "arrayptr":
			for k := int64(0); k < p.n; k++ {
				gets = append(gets, x.memRead(x.entryMem, x.memName(p.elem), ptrRef(v.S), x.iadd(ptrOff(v.S), x.idxConst(k))))
			}
		}
	}
	var small []string
	for _, p := range ps {
		if p.kind == "slice" {
			v := x.vals[x.paramByName(p.name)]
			small = append(small, "(assert "+x.ile(slCap(v.S), x.idxConst(maxReplayLen))+")")
		}
	}
	for attempt := 0; attempt < 2; attempt++ {
		extra := ""
		if attempt == 0 {
			extra = strings.Join(small, "\n")
		}
		q := o.Query(true, extra) + "(get-value (" + strings.Join(gets, " ") + "))\n"
		file := filepath.Join(work, fileSafe.ReplaceAllString(o.Name, "_")+fmt.Sprintf(".model%d.smt2", attempt))
		os.WriteFile(file, []byte(q), 0o644)
		for _, sp := range solvers[:2] {
			res, text, _ := runSolver(context.Background(), sp, file, 20)
			if res != "sat" {
				continue
			}
			rest := text[strings.Index(text, "sat")+3:]
			sx := parseSexps(rest)
			if len(sx) == 0 || len(sx[0].list) != len(gets) {
				continue
			}
			vals := sx[0].list
			lits := map[string]string{}
			k := 0
			next := func() *sexp { v := vals[k].list[1]; k++; return v }
			okAll := true
			intLit := func(v *sexp, t types.Type) string {
				w := 0
				if intSigned(t) {
					w = intWidth(t)
				}
				n, ok := modelInt(v, w)
				if !ok {
					okAll = false
					return "0"
				}
				return n.String()
			}
			for _, p := range ps {
				switch p.kind {
				case "int":
					lits[p.name] = fmt.Sprintf("%s(%s)", p.goType, intLit(next(), p.t))
				case "bool":
					lits[p.name] = next().atom
				case "slice":
					ln, _ := modelInt(next(), 64)
					cp, _ := modelInt(next(), 64)
					var es []string
					for j := 0; j < maxReplayLen; j++ {
						v := next()
						if ln != nil && int64(j) < ln.Int64() {
							if isBool(p.elem) {
								es = append(es, v.atom)
							} else {
								es = append(es, intLit(v, p.elem))
							}
						}
					}
					if ln == nil || cp == nil || ln.Int64() > maxReplayLen {
						okAll = false
						break
					}
					_ = cp
					lits[p.name] = fmt.Sprintf("%s{%s}", p.goType, strings.Join(es, ", "))
				case "arrayptr":
					var es []string
					for j := int64(0); j < p.n; j++ {
						es = append(es, intLit(next(), p.elem))
					}
					lits[p.name] = fmt.Sprintf("&%s{%s}", strings.TrimPrefix(p.goType, "*"), strings.Join(es, ", "))
				}
			}
			if okAll {
				return lits, truncate(rest, 1500), nil
			}
		}
	}
	return nil, "", fmt.Errorf("no decodable small model (slices longer than %d elements or solver gave no model)", maxReplayLen)
}

func (x *fx) paramByName(n string) ssa.Value {
	for _, p := range x.fn.Params {
		if p.Name() == n {
			return p
		}
	}
	return nil
}

// ---- contract expression -> Go --------------------------------------------

type goGen struct {
	x       *fx
	params  map[string]rparam
	results []string // names of results (result0..)
	named   map[string]int
	err      error
	intMode  bool
	verbatim bool // inside an inlined spec function: parameters are closure variables
}

func (gg *goGen) fail(f string, a ...any) string {
	if gg.err == nil {
		gg.err = fmt.Errorf(f, a...)
	}
	return "false"
}

// leafIsInt reports whether a leaf expression denotes an integer (so that int
// mode can widen it to int and evaluate the contract mathematically).
func (gg *goGen) exprType(e *Expr, bound map[string]bool, old bool) string {
	switch e.Op {
	case "num":
		return "int"
	case "id":
		if bound[e.Name] {
			return "int"
		}
		if e.Name == "true" || e.Name == "false" {
			return "bool"
		}
		if p, ok := gg.params[e.Name]; ok {
			if p.kind == "int" {
				return "int"
			}
			return p.kind
		}
		if k, ok := gg.resultIndex(e.Name); ok {
			rt := gg.x.fn.Signature.Results().At(k).Type()
			if _, ok := isInt(rt); ok {
				return "int"
			}
			if isBool(rt) {
				return "bool"
			}
			return "other"
		}
	case "index":
		return "elem"
	case "call":
		if e.Args[0].Op == "id" {
			switch e.Args[0].Name {
			case "len", "cap":
				return "int"
			}
		}
	}
	return "other"
}

func (gg *goGen) resultIndex(name string) (int, bool) {
	if strings.HasPrefix(name, "result") {
		k := 0
		if name != "result" {
			var err error
			k, err = strconv.Atoi(name[6:])
			if err != nil {
				return 0, false
			}
		}
		return k, k < gg.x.fn.Signature.Results().Len()
	}
	if k, ok := gg.named[name]; ok {
		return k, true
	}
	return 0, false
}

func (gg *goGen) gen(e *Expr, bound map[string]bool, old bool) string {
	wrapInt := func(s string, isInt bool) string {
		if gg.intMode && isInt {
			return "int(" + s + ")"
		}
		return s
	}
	switch e.Op {
	case "num":
		return e.Num
	case "id":
		switch e.Name {
		case "true", "false", "nil":
			return e.Name
		}
		if bound[e.Name] {
			return e.Name
		}
		if p, ok := gg.params[e.Name]; ok && gg.verbatim {
			return wrapInt(e.Name, p.kind == "int")
		}
		if p, ok := gg.params[e.Name]; ok {
			n := p.name
			if old && p.kind != "int" && p.kind != "bool" {
				n = "old_" + n
			} else if p.kind == "int" || p.kind == "bool" {
				n = "in_" + n
			}
			return wrapInt(n, p.kind == "int")
		}
		if k, ok := gg.resultIndex(e.Name); ok {
			rt := gg.x.fn.Signature.Results().At(k).Type()
			_, isI := isInt(rt)
			return wrapInt(fmt.Sprintf("result%d", k), isI)
		}
		return gg.fail("name %s is not available in a replay", e.Name)
	case "old":
		return gg.gen(e.Args[0], bound, true)
	case "un":
		return "(" + e.Name + gg.gen(e.Args[0], bound, old) + ")"
	case "bin":
		a, b := gg.gen(e.Args[0], bound, old), gg.gen(e.Args[1], bound, old)
		switch e.Name {
		case "==>":
			return "(!(" + a + ") || (" + b + "))"
		case "<==>":
			return "((" + a + ") == (" + b + "))"
		}
		if e.Name == "==" || e.Name == "!=" {
			// slice equality: same header
			if gg.isSliceExpr(e.Args[0]) || gg.isSliceExpr(e.Args[1]) {
				eq := fmt.Sprintf("sameSlice(%s, %s)", a, b)
				if e.Name == "!=" {
					eq = "!" + eq
				}
				return eq
			}
		}
		return "(" + a + " " + e.Name + " " + b + ")"
	case "cond":
		return fmt.Sprintf("ite(%s, %s, %s)", gg.gen(e.Args[0], bound, old), gg.gen(e.Args[1], bound, old), gg.gen(e.Args[2], bound, old))
	case "index":
		s := gg.gen(e.Args[0], bound, old)
		i := gg.gen(e.Args[1], bound, old)
		// total access: conditional expressions are evaluated eagerly in Go, so an
		// index in the branch not taken must not panic
		return wrapInt("verifAt("+s+"[:], int("+i+"))", gg.elemIsInt(e.Args[0]))
	case "slice":
		// a row of a slice of arrays (data[k][lo:hi]): the total-indexing helper
		// returns the array by value, which is sliced through a local
		if ix := e.Args[0]; ix.Op == "index" {
			base := ix.Args[0]
			if base.Op == "old" {
				base = base.Args[0]
			}
			if base.Op == "id" {
				if p, ok := gg.params[base.Name]; ok && p.kind == "slicearr" {
					lo, hi := "", ""
					if e.Args[1] != nil {
						lo = gg.gen(e.Args[1], bound, old)
					}
					if e.Args[2] != nil {
						hi = gg.gen(e.Args[2], bound, old)
					}
					save := gg.intMode
					gg.intMode = false
					row := gg.gen(ix, bound, old)
					gg.intMode = save
					return fmt.Sprintf("func() []%s { a := %s; return a[%s:%s] }()", goTypeString(p.elem, nil), row, lo, hi)
				}
			}
		}
		s := gg.gen(e.Args[0], bound, old) + "["
		if e.Args[1] != nil {
			s += gg.gen(e.Args[1], bound, old)
		}
		s += ":"
		if e.Args[2] != nil {
			s += gg.gen(e.Args[2], bound, old)
		}
		return s + "]"
	case "forall", "exists":
		if len(e.Args) != 3 {
			return gg.fail("unbounded quantifier is not executable")
		}
		nb := map[string]bool{}
		for k := range bound {
			nb[k] = true
		}
		nb[e.Name] = true
		lo, hi := gg.gen(e.Args[0], bound, old), gg.gen(e.Args[1], bound, old)
		body := gg.gen(e.Args[2], nb, old)
		if e.Op == "forall" {
			return fmt.Sprintf("func() bool { for %s := int(%s); %s < int(%s); %s++ { if !(%s) { return false } }; return true }()", e.Name, lo, e.Name, hi, e.Name, body)
		}
		return fmt.Sprintf("func() bool { for %s := int(%s); %s < int(%s); %s++ { if %s { return true } }; return false }()", e.Name, lo, e.Name, hi, e.Name, body)
	case "call":
		f := e.Args[0]
		if f.Op == "id" {
			switch f.Name {
			case "len", "cap":
				return "int(" + f.Name + "(" + gg.gen(e.Args[1], bound, old) + "))"
			case "min", "max":
				return fmt.Sprintf("%s(%s, %s)", f.Name, gg.gen(e.Args[1], bound, old), gg.gen(e.Args[2], bound, old))
			case "base", "fresh", "typeis", "as", "deref", "cell", "isnan":
				return gg.fail("%s() is not executable", f.Name)
			}
			if sf := gg.x.g.lookupSpec(gg.x.c.Pkg, f.Name); sf != nil {
				if sf.Body == nil || sf.Rec {
					return gg.fail("spec function %s has no executable definition", sf.Name)
				}
				// inline: bind parameters to argument expressions via a closure
				var ps, as []string
				sub := &goGen{x: gg.x, params: map[string]rparam{}, named: map[string]int{}, intMode: gg.intMode}
				for i, p := range sf.Params {
					ps = append(ps, p.Name+" "+p.Type)
					as = append(as, gg.rawArg(e.Args[1+i], bound, old))
					k := "other"
					t := strings.TrimSpace(p.Type)
					switch {
					case strings.HasPrefix(t, "[]"):
						k = "slice"
					case t == "bool":
						k = "bool"
					case strings.HasPrefix(t, "int") || strings.HasPrefix(t, "uint") || t == "byte":
						k = "int"
					}
					sub.params[p.Name] = rparam{name: p.Name, kind: k, goType: p.Type, elem: sliceElemOf(t)}
				}
				for i := range sf.Params {
					_ = i
				}
				body := sub.genSpecBody(sf.Body)
				if sub.err != nil {
					return gg.fail("%v", sub.err)
				}
				return fmt.Sprintf("func(%s) %s { return %s }(%s)", strings.Join(ps, ", "), sf.Ret, body, strings.Join(as, ", "))
			}
			// conversion
			if t := gg.x.resolveType(f.Name, &specEnv{pkg: gg.x.g.typesPkg(gg.x.c.Pkg)}); t != nil && len(e.Args) == 2 {
				if gg.intMode {
					return "int(" + f.Name + "(" + gg.rawArg(e.Args[1], bound, old) + "))"
				}
				return f.Name + "(" + gg.gen(e.Args[1], bound, old) + ")"
			}
		}
		if f.Op == "id" {
			if _, isParam := gg.params[f.Name]; isParam && gg.verbatim {
				var as []string
				for _, a := range e.Args[1:] {
					as = append(as, gg.rawArg(a, bound, old))
				}
				return "int(" + f.Name + "(" + strings.Join(as, ", ") + "))"
			}
		}
		if f.Op == "field" && gg.verbatim {
			var as []string
			for _, a := range e.Args[1:] {
				as = append(as, gg.rawArg(a, bound, old))
			}
			return gg.gen(f.Args[0], bound, old) + "." + f.Name + "(" + strings.Join(as, ", ") + ")"
		}
		return gg.fail("call %s is not executable", e)
	}
	return gg.fail("expression %s is not executable", e)
}

func sliceElemOf(t string) types.Type {
	switch strings.TrimPrefix(t, "[]") {
	case "byte", "uint8":
		return tByte
	case "int32":
		return types.Typ[types.Int32]
	case "int64":
		return types.Typ[types.Int64]
	case "uint32":
		return types.Typ[types.Uint32]
	case "uint64":
		return types.Typ[types.Uint64]
	case "int":
		return tInt
	}
	return nil
}

// genSpecBody translates the body of an inlined spec function: its parameters
// are plain Go variables of the closure (emitted verbatim).
func (gg *goGen) genSpecBody(e *Expr) string {
	gg.verbatim = true
	return gg.gen(e, map[string]bool{}, false)
}

// rawArg: an argument passed to an inlined spec function keeps its Go type
// (no int() widening of the whole argument).
func (gg *goGen) rawArg(e *Expr, bound map[string]bool, old bool) string {
	save := gg.intMode
	if e.Op == "id" || e.Op == "old" || e.Op == "slice" {
		gg.intMode = false
	}
	r := gg.gen(e, bound, old)
	gg.intMode = save
	return r
}

func (gg *goGen) isSliceExpr(e *Expr) bool {
	switch e.Op {
	case "id":
		if p, ok := gg.params[e.Name]; ok {
			return p.kind == "slice"
		}
		if k, ok := gg.resultIndex(e.Name); ok {
			_, isS := gg.x.fn.Signature.Results().At(k).Type().Underlying().(*types.Slice)
			return isS
		}
	case "slice":
		return true
	case "old":
		return gg.isSliceExpr(e.Args[0])
	}
	return false
}

func (gg *goGen) elemIsInt(e *Expr) bool {
	switch e.Op {
	case "id":
		if p, ok := gg.params[e.Name]; ok && p.elem != nil {
			// 64-bit unsigned elements do not fit Go's int: they are compared natively
			if b, isB := p.elem.Underlying().(*types.Basic); isB && (b.Kind() == types.Uint64 || b.Kind() == types.Uint || b.Kind() == types.Uintptr) {
				return false
			}
			_, ok := isInt(p.elem)
			return ok
		}
		if k, ok := gg.resultIndex(e.Name); ok {
			switch u := gg.x.fn.Signature.Results().At(k).Type().Underlying().(type) {
			case *types.Slice:
				_, ok := isInt(u.Elem())
				return ok
			}
		}
	case "old", "slice":
		return gg.elemIsInt(e.Args[0])
	}
	return false
}

// ---- test generation -------------------------------------------------------

func (g *Gen) replayOnRealCode(o *Oblig, work, repo, verif string) map[string]any {
	x := o.fx
	if x == nil || x.fn == nil {
		return nil
	}
	if x.c.Replay == "none" {
		return map[string]any{"replay_skipped": "replay disabled for this contract"}
	}
	ps, why := x.replayParams()
	if ps == nil {
		return map[string]any{"replay_skipped": "inputs of this function cannot be built from a solver model (" + why + ")"}
	}
	for _, p := range ps {
		if p.kind == "slicearr" && o.Kind != "bounded" {
			return map[string]any{"replay_skipped": "inputs of this function cannot be built from a solver model (parameter " + p.name + " of type " + p.t.String() + ")"}
		}
	}
	res := x.fn.Signature.Results()
	gg := &goGen{x: x, params: map[string]rparam{}, named: map[string]int{}, intMode: x.mode == ModeInt}
	for _, p := range ps {
		gg.params[p.name] = p
	}
	for k := 0; k < res.Len(); k++ {
		if n := res.At(k).Name(); n != "" && n != "_" {
			gg.named[n] = k
		}
	}
	var reqs, enss []string
	for _, cl := range x.c.Requires {
		reqs = append(reqs, gg.gen(cl.E, map[string]bool{}, false))
	}
	if o.Kind == "bounded" {
		for _, cl := range x.c.BoundedReq {
			reqs = append(reqs, gg.gen(cl.E, map[string]bool{}, false))
		}
	}
	if gg.err != nil {
		return map[string]any{"replay_skipped": "precondition is not executable: " + gg.err.Error()}
	}
	var labels, skipped []string
	for k, cl := range x.c.Ensures {
		gg.err = nil
		g := gg.gen(cl.E, map[string]bool{}, false)
		if gg.err != nil {
			skipped = append(skipped, clauseLabel(cl, k)+" ("+gg.err.Error()+")")
			continue
		}
		enss = append(enss, g)
		labels = append(labels, clauseLabel(cl, k))
	}
	gg.err = nil
	if len(enss) == 0 && o.Kind == "bounded" {
		return map[string]any{"replay_skipped": "no postcondition of the contract is executable against this build: " + strings.Join(skipped, "; ")}
	}
	var lits map[string]string
	var modelText, modelNote string
	if o.Status == "failed" {
		var err error
		lits, modelText, err = x.modelInputs(o, ps, work)
		if err != nil {
			modelNote = err.Error()
		}
	} else {
		modelNote = "no solver decided the obligation, so there is no model; the executable contract is run over the small-scope enumeration only"
	}
	pkgT := x.fn.Pkg
	if pkgT == nil && x.fn.Origin() != nil {
		pkgT = x.fn.Origin().Pkg
	}
	src := genReplayTest(x, ps, lits, reqs, enss, labels, pkgT.Pkg.Name())
	pkgDir := filepath.Join(repo, strings.TrimPrefix(strings.TrimPrefix(x.c.Pkg, repoModule), "/"))
	testFile := filepath.Join(work, fileSafe.ReplaceAllString(o.Name, "_")+"_replay_test.go")
	os.WriteFile(testFile, []byte(src), 0o644)
	ov := map[string]any{"Replace": map[string]string{filepath.Join(pkgDir, "zz_verif_replay_test.go"): testFile}}
	ovb, _ := json.Marshal(ov)
	ovFile := filepath.Join(work, fileSafe.ReplaceAllString(o.Name, "_")+"_overlay.json")
	os.WriteFile(ovFile, ovb, 0o644)
	tags := "verif"
	if x.c.Tags != "" {
		tags += "," + x.c.Tags
	}
	seed := os.Getenv("VERIF_SEED")
	if seed == "" {
		seed = "1"
	}
	bounded := ""
	if o.Kind == "bounded" {
		bounded = "VERIF_BOUNDED=1 "
	}
	cmdline := fmt.Sprintf("cd %s && ulimit -v 12000000 && "+bounded+"VERIF_SEED=%s go test -overlay %s -v -vet=off -count=1 -timeout 120s -tags %s -run '^TestVerifReplay$' .", pkgDir, seed, ovFile, tags)
	ctx, cancel := context.WithTimeout(context.Background(), 300*time.Second)
	defer cancel()
	cmd := exec.CommandContext(ctx, "bash", "-c", cmdline)
	cmd.Env = append(os.Environ(), "GOFLAGS=-mod=mod", "GOPROXY=off", "GOTOOLCHAIN=auto")
	out, _ := cmd.CombinedOutput()
	text := string(out)
	_ = skipped
	r := map[string]any{"ensures_not_executable": skipped, "replay_test": testFile, "replay_cmd": cmdline, "replay_output": truncate(text, 6000), "model": modelText, "model_inputs": lits}
	if modelNote != "" {
		r["model_note"] = modelNote
	}
	switch {
	case strings.Contains(text, "REPLAY-RESULT: REPRODUCED-MODEL"):
		r["reproduced"] = true
		r["how"] = "the solver's model, run on the real code, violates the contract"
	case strings.Contains(text, "REPLAY-RESULT: REPRODUCED-ENUM"):
		r["reproduced"] = true
		r["how"] = "the solver's model did not reproduce, but the executable contract run over a seeded small-scope enumeration found a failing input on the real code"
	case strings.Contains(text, "REPLAY-RESULT: NOT-REPRODUCED"):
		r["reproduced"] = false
		r["replay_skipped"] = "neither the solver's model nor the small-scope enumeration violates the executable contract on the real code"
	default:
		r["reproduced"] = false
		r["replay_skipped"] = "the replay test did not build or run (see replay_output)"
	}
	return r
}

func genReplayTest(x *fx, ps []rparam, lits map[string]string, reqs, enss, labels []string, pkgName string) string {
	var b strings.Builder
	_, fname := fnKey(x.fn)
	res := x.fn.Signature.Results()
	tp := x.fn.Pkg
	if tp == nil && x.fn.Origin() != nil {
		tp = x.fn.Origin().Pkg
	}
	fmt.Fprintf(&b, "package %s\n\nimport (\n\t\"fmt\"\n\t\"math/rand\"\n\t\"os\"\n\t\"sort\"\n\t\"strconv\"\n\t\"testing\"\n)\n\nvar _ = sort.Ints\n\n", pkgName)
	b.WriteString("func ite[T any](c bool, a, b T) T { if c { return a }; return b }\n")
	b.WriteString("func verifAt[T any](s []T, i int) T { if i < 0 || i >= len(s) { var z T; return z }; return s[i] }\n")
	b.WriteString("func sameSlice[T any](a, b []T) bool { if len(a) != len(b) { return false }; if len(a) == 0 { return true }; return &a[0] == &b[0] }\n\n")
	// one evaluation of the executable contract
	b.WriteString("func verifReplayOnce(")
	for i, p := range ps {
		if i > 0 {
			b.WriteString(", ")
		}
		fmt.Fprintf(&b, "%s %s", p.name, p.goType)
	}
	b.WriteString(") (admissible bool, violated string) {\n")
	for _, p := range ps {
		switch p.kind {
		case "int", "bool":
			fmt.Fprintf(&b, "\tin_%s := %s\n", p.name, p.name)
		case "slice", "slicearr":
			fmt.Fprintf(&b, "\told_%s := append(%s(nil), %s...)\n", p.name, p.goType, p.name)
		case "arrayptr":
			fmt.Fprintf(&b, "\told_%s_v := *%s\n\told_%s := &old_%s_v\n", p.name, p.name, p.name, p.name)
		}
		fmt.Fprintf(&b, "\t_ = %s\n", map[string]string{"int": "in_" + p.name, "bool": "in_" + p.name, "slice": "old_" + p.name, "slicearr": "old_" + p.name, "arrayptr": "old_" + p.name}[p.kind])
	}
	for _, r := range reqs {
		fmt.Fprintf(&b, "\tif !(%s) {\n\t\treturn false, \"\"\n\t}\n", r)
	}
	for k := 0; k < res.Len(); k++ {
		fmt.Fprintf(&b, "\tvar result%d %s\n\t_ = result%d\n", k, goTypeString(res.At(k).Type(), tp.Pkg), k)
	}
	var lhs []string
	for k := 0; k < res.Len(); k++ {
		lhs = append(lhs, fmt.Sprintf("result%d", k))
	}
	var args []string
	for _, p := range ps {
		args = append(args, p.name)
	}
	callArgs := append([]string{}, args...)
	if x.fn.Signature.Variadic() && len(callArgs) > 0 {
		callArgs[len(callArgs)-1] += "..."
	}
	call := fname + "(" + strings.Join(callArgs, ", ") + ")"
	if x.fn.Signature.Recv() != nil && len(callArgs) > 0 {
		call = callArgs[0] + "." + x.fn.Name() + "(" + strings.Join(callArgs[1:], ", ") + ")"
	}
	if len(lhs) > 0 {
		call = strings.Join(lhs, ", ") + " = " + call
	}
	fmt.Fprintf(&b, "\tpanicked := func() (p any) {\n\t\tdefer func() { p = recover() }()\n\t\t%s\n\t\treturn nil\n\t}()\n", call)
	b.WriteString("\tif panicked != nil {\n\t\treturn true, fmt.Sprintf(\"panic: %v\", panicked)\n\t}\n")
	for k, e := range enss {
		fmt.Fprintf(&b, "\tif ok := func() (ok bool) {\n\t\tdefer func() { if recover() != nil { ok = false } }()\n\t\treturn %s\n\t}(); !ok {\n\t\treturn true, \"ensures %s is false\"\n\t}\n", e, labels[k])
	}
	b.WriteString("\treturn true, \"\"\n}\n\n")
	// boundary values
	b.WriteString(`func verifPick(r *rand.Rand, bits int, signed bool) int64 {
	b := []int64{0, 1, 2, 3, 7, 8, 127, 128, 254, 255, 256}
	if bits >= 32 { b = append(b, 1<<31-1, 1<<31, 1<<32-1) }
	if bits >= 64 { b = append(b, 1<<63-1, -1<<63) }
	v := b[r.Intn(len(b))]
	if r.Intn(3) == 0 { v = r.Int63() >> uint(r.Intn(63)) }
	if signed && r.Intn(2) == 0 { v = -v }
	return v
}

`)
	b.WriteString("func verifLen(r *rand.Rand) int {\n\tif os.Getenv(\"VERIF_BOUNDED\") == \"\" {\n\t\treturn r.Intn(7)\n\t}\n\tl := []int{0, 1, 2, 3, 4, 5, 6, 7, 8, 9, 10, 11, 15, 16, 17, 23, 24, 25, 31, 32, 33, 47, 48, 49, 55, 56, 57, 63, 64, 65, 127, 128, 129, 239, 240, 241, 255, 256, 257}\n\treturn l[r.Intn(len(l))]\n}\n\n")
	b.WriteString("func TestVerifReplay(t *testing.T) {\n")
	if lits != nil {
		b.WriteString("\t{\n")
		for _, p := range ps {
			fmt.Fprintf(&b, "\t\t%s := %s\n", p.name, lits[p.name])
		}
		fmt.Fprintf(&b, "\t\tinput := fmt.Sprintf(\"%s\"", strings.Repeat("%v ", len(ps)))
		for _, p := range ps {
			if p.kind == "arrayptr" {
				fmt.Fprintf(&b, ", *%s", p.name)
			} else {
				fmt.Fprintf(&b, ", %s", p.name)
			}
		}
		b.WriteString(")\n")
		fmt.Fprintf(&b, "\t\tadm, viol := verifReplayOnce(%s)\n", strings.Join(args, ", "))
		b.WriteString("\t\tfmt.Println(\"REPLAY: model input:\", input, \"admissible:\", adm, \"violation:\", viol)\n")
		b.WriteString("\t\tif adm && viol != \"\" {\n\t\t\tfmt.Println(\"REPLAY-RESULT: REPRODUCED-MODEL\", viol)\n\t\t\treturn\n\t\t}\n\t}\n")
	}
	// small-scope enumeration
	b.WriteString("\tseed, _ := strconv.ParseInt(os.Getenv(\"VERIF_SEED\"), 10, 64)\n\tr := rand.New(rand.NewSource(seed))\n\ttried := 0\n")
	b.WriteString("\tfor iter := 0; iter < 200000 && tried < 20000; iter++ {\n")
	for _, p := range ps {
		switch p.kind {
		case "int":
			fmt.Fprintf(&b, "\t\t%s := %s(verifPick(r, %d, %v))\n", p.name, p.goType, intWidth(p.t), intSigned(p.t))
		case "bool":
			fmt.Fprintf(&b, "\t\t%s := r.Intn(2) == 0\n", p.name)
		case "slice":
			fmt.Fprintf(&b, "\t\t%s := make(%s, verifLen(r))\n", p.name, p.goType)
			if isBool(p.elem) {
				fmt.Fprintf(&b, "\t\tfor i := range %s { %s[i] = r.Intn(2) == 0 }\n", p.name, p.name)
			} else {
				fmt.Fprintf(&b, "\t\tfor i := range %s { %s[i] = %s(verifPick(r, %d, %v)) }\n", p.name, p.name, goTypeString(p.elem, tp.Pkg), intWidth(p.elem), intSigned(p.elem))
				// a quarter of the inputs ascending, a quarter descending (order-sensitive kernels)
				fmt.Fprintf(&b, "\t\tswitch r.Intn(4) {\n\t\tcase 0:\n\t\t\tsort.Slice(%s, func(i, j int) bool { return %s[i] < %s[j] })\n\t\tcase 1:\n\t\t\tsort.Slice(%s, func(i, j int) bool { return %s[i] > %s[j] })\n\t\t}\n", p.name, p.name, p.name, p.name, p.name, p.name)
			}
		case "arrayptr":
			fmt.Fprintf(&b, "\t\t%s := new(%s)\n\t\tfor i := range %s { %s[i] = %s(verifPick(r, %d, %v)) }\n", p.name, strings.TrimPrefix(p.goType, "*"), p.name, p.name, goTypeString(p.elem, tp.Pkg), intWidth(p.elem), intSigned(p.elem))
		case "slicearr":
			// rows often share a prefix with the previous row (lexicographic kernels)
			fmt.Fprintf(&b, "\t\t%s := make(%s, verifLen(r))\n", p.name, p.goType)
			fmt.Fprintf(&b, "\t\tfor i := range %s {\n\t\t\tshare := 0\n\t\t\tif i > 0 && r.Intn(2) == 0 { share = r.Intn(len(%s[i]) + 1) }\n\t\t\tfor j := range %s[i] {\n\t\t\t\tif j < share { %s[i][j] = %s[i-1][j] } else { %s[i][j] = %s(verifPick(r, %d, %v)) }\n\t\t\t}\n\t\t}\n",
				p.name, p.name, p.name, p.name, p.name, p.name, goTypeString(p.elem, tp.Pkg), intWidth(p.elem), intSigned(p.elem))
		}
	}
	fmt.Fprintf(&b, "\t\tinput := fmt.Sprintf(\"%s\"", strings.Repeat("%v ", len(ps)))
	for _, p := range ps {
		if p.kind == "arrayptr" {
			fmt.Fprintf(&b, ", *%s", p.name)
		} else {
			fmt.Fprintf(&b, ", %s", p.name)
		}
	}
	b.WriteString(")\n")
	fmt.Fprintf(&b, "\t\tadm, viol := verifReplayOnce(%s)\n", strings.Join(args, ", "))
	b.WriteString("\t\tif adm {\n\t\t\ttried++\n\t\t}\n")
	b.WriteString("\t\tif adm && viol != \"\" {\n\t\t\tfmt.Println(\"REPLAY: enumerated input (before the call):\", input, \"violation:\", viol)\n\t\t\tfmt.Println(\"REPLAY-RESULT: REPRODUCED-ENUM\", viol)\n\t\t\treturn\n\t\t}\n\t}\n")
	b.WriteString("\tfmt.Println(\"REPLAY-RESULT: NOT-REPRODUCED admissible inputs tried:\", tried)\n}\n")
	return b.String()
}

func cmdReplay(args []string) int {
	if len(args) == 0 {
		fmt.Println("usage: vcgen replay <replay-file.json>")
		return 2
	}
	path := args[len(args)-1]
	b, err := os.ReadFile(path)
	if err != nil {
		fmt.Println(err)
		return 2
	}
	var rep map[string]any
	if err := json.Unmarshal(b, &rep); err != nil {
		fmt.Println(err)
		return 2
	}
	fmt.Printf("obligation: %v\nfunction:   %v\ncontract:   %v\n", rep["obligation"], rep["function"], rep["contract"])
	if cmdline, ok := rep["replay_cmd"].(string); ok {
		cmd := exec.Command("bash", "-c", cmdline)
		cmd.Env = append(os.Environ(), "GOFLAGS=-mod=mod", "GOPROXY=off", "GOTOOLCHAIN=auto")
		out, _ := cmd.CombinedOutput()
		fmt.Print(string(out))
		if strings.Contains(string(out), "REPLAY-RESULT: REPRODUCED") {
			fmt.Printf("VIOLATION property=%v replay=%s\n", rep["property"], path)
			return 1
		}
		return 0
	}
	// no executable replay: re-run the solver on the recorded query
	if q, ok := rep["query_file"].(string); ok {
		for _, sp := range solvers {
			res, _, el := runSolver(context.Background(), sp, q, 30)
			fmt.Printf("%s: %s (%.2fs)\n", sp.name, res, el)
		}
		fmt.Printf("VIOLATION property=%v replay=%s no-failing-input-found\n", rep["property"], path)
		return 1
	}
	fmt.Println(rep["note"])
	return 1
}

// boundedStandin runs the executable form of a contract against the build the
// users run (default tags: the assembly kernels on amd64) over the seeded
// boundary enumeration.  It is a bounded check, never counted as proved.
func (g *Gen) boundedStandin(p *program, c *Contract, work, repo, verif string) (map[string]any, *Oblig) {
	fn := p.fns[c.Pkg+"."+c.Name]
	if fn == nil {
		return map[string]any{"function": c.Pkg + "." + c.Name, "skipped": "function not present under tags " + p.tags}, nil
	}
	g.cur = p
	cc := *c
	cc.Tags = ""
	x := newFx(g, fn, &cc, 2)
	x.usedSpecs = map[string]bool{}
	o := &Oblig{Fn: c.Pkg + "." + c.Name, Name: shortPkg(c.Pkg) + "." + c.Name + "#asm-conforms(bounded)", Kind: "bounded", Status: "unknown", fx: x,
		Desc: "bounded conformance of the default-build implementation to the contract of its portable twin", Expect: "unsat"}
	r := g.replayOnRealCode(o, work, repo, verif)
	res := map[string]any{"function": c.Pkg + "." + c.Name, "build_tags": "verif (default build: assembly kernels where available)",
		"domain": "slice lengths {0..11,15..17,23..25,31..33,47..49,55..57,63..65,127..129,239..241,255..257}, values from a boundary set and VERIF_SEED-seeded random fill"}
	if r == nil {
		res["skipped"] = "no executable contract"
		return res, nil
	}
	out, _ := r["replay_output"].(string)
	res["cases"] = 0
	if i := strings.Index(out, "admissible inputs tried:"); i >= 0 {
		var n int
		fmt.Sscanf(out[i+len("admissible inputs tried:"):], "%d", &n)
		res["cases"] = n
	}
	if s, ok := r["replay_skipped"].(string); ok && !strings.Contains(out, "REPLAY-RESULT") {
		res["skipped"] = s
		res["output"] = truncate(out, 800)
		return res, nil
	}
	if b, _ := r["reproduced"].(bool); b {
		o.Status = "failed"
		o.Output = out
		res["violated"] = true
		res["output"] = truncate(out, 1200)
		o.ReplayInfo = r
		return res, o
	}
	res["violated"] = false
	return res, nil
}
