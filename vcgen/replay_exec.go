package main

// replayOnRealCode: placeholder until the executable-contract generator lands.
func (g *Gen) replayOnRealCode(o *Oblig, work, repo, verif string) map[string]any {
	return nil
}
