package main

import (
	"bytes"
	"context"
	"fmt"
	"os"
	"os/exec"
	"path/filepath"
	"regexp"
	"strings"
	"sync"
	"time"
)

// Query renders the SMT-LIB text of an obligation.
func (o *Oblig) Query(withModel bool, extra string) string {
	x := o.fx
	var b strings.Builder
	if withModel {
		b.WriteString("(set-option :produce-models true)\n")
	}
	b.WriteString("(set-logic ALL)\n")
	b.WriteString(x.preamble())
	for _, s := range x.sorts {
		b.WriteString(s + "\n")
	}
	for _, d := range x.decls {
		b.WriteString(d + "\n")
	}
	for _, s := range relevantSteps(x.steps[:o.NSteps], o.PC+" "+o.Goal+" "+extra, o.ForceFilter) {
		b.WriteString("(assert " + s + ")\n")
	}
	fmt.Fprintf(&b, "; obligation %s: %s\n", o.Name, o.Desc)
	b.WriteString("(assert " + o.PC + ")\n")
	b.WriteString("(assert (not " + o.Goal + "))\n")
	if extra != "" {
		b.WriteString(extra + "\n")
	}
	b.WriteString("(check-sat)\n")
	return b.String()
}

type solverSpec struct {
	name string
	cmd  func(file string, secs int) []string
}

var solvers = []solverSpec{
	{"z3-5.1.0", func(f string, s int) []string { return []string{"z3-new", "-smt2", fmt.Sprintf("-T:%d", s), f} }},
	{"z3-4.8.12", func(f string, s int) []string { return []string{"z3", "-smt2", fmt.Sprintf("-T:%d", s), f} }},
	{"cvc5-1.0", func(f string, s int) []string {
		return []string{"cvc5", fmt.Sprintf("--tlimit=%d", s*1000), "--fp-exp", f}
	}},
}

func runSolver(ctx context.Context, sp solverSpec, file string, secs int) (string, string, float64) {
	args := sp.cmd(file, secs)
	cctx, cancel := context.WithTimeout(ctx, time.Duration(secs+2)*time.Second)
	defer cancel()
	cmd := exec.CommandContext(cctx, args[0], args[1:]...)
	var out bytes.Buffer
	cmd.Stdout = &out
	cmd.Stderr = &out
	t0 := time.Now()
	cmd.Run()
	el := time.Since(t0).Seconds()
	text := out.String()
	first := strings.TrimSpace(strings.SplitN(text, "\n", 2)[0])
	switch first {
	case "sat", "unsat", "unknown":
		return first, text, el
	}
	if strings.Contains(text, "timeout") || cctx.Err() != nil {
		return "timeout", text, el
	}
	return "error", text, el
}

var fileSafe = regexp.MustCompile(`[^A-Za-z0-9_.#:@\-]`)

func obFile(dir string, o *Oblig) string {
	return filepath.Join(dir, fileSafe.ReplaceAllString(o.Name, "_")+".smt2")
}

// discharge runs the solver race for one obligation.
func discharge(o *Oblig, dir string, quickSecs, fullSecs int) {
	file := obFile(dir, o)
	os.WriteFile(file, []byte(o.Query(false, "")), 0o644)
	want := o.Expect
	decide := func(res, backend, text string, el float64) bool {
		if res == "sat" || res == "unsat" {
			o.Backend = backend
			o.Secs += el
			o.Output = text
			if res == want {
				o.Status = "proved"
			} else {
				o.Status = "failed"
			}
			return true
		}
		return false
	}
	// stage 1: the fastest solver alone
	if o.Kind == "canary" {
		// vacuity canary: `assert false` must NOT be provable.  Finding a model of
		// quantified assumptions is hard, so "unknown" within the budget counts
		// as not refuted; only `unsat` (contradictory contract) fails.
		res, text, el := runSolver(context.Background(), solvers[0], file, 2)
		o.Backend, o.Secs, o.Output = solvers[0].name, el, firstLines(text, 2)
		switch res {
		case "unsat":
			o.Status = "failed"
		case "sat":
			o.Status = "proved"
		case "error":
			o.Status = "error"
		default:
			o.Status = "not-refuted"
		}
		return
	}
	if o.ShortBudget && fullSecs > 8 {
		fullSecs = 8
	}
	res, text, el := runSolver(context.Background(), solvers[0], file, quickSecs)
	if decide(res, solvers[0].name, text, el) {
		return
	}
	o.Secs += el
	if res == "error" {
		o.Output = text
	}
	// stage 2: race all solvers
	ctx, cancel := context.WithCancel(context.Background())
	defer cancel()
	type r struct {
		res, text, name string
		el              float64
	}
	ch := make(chan r, len(solvers))
	for _, sp := range solvers {
		sp := sp
		go func() {
			res, text, el := runSolver(ctx, sp, file, fullSecs)
			ch <- r{res, text, sp.name, el}
		}()
	}
	var outs []string
	maxEl := 0.0
	for range solvers {
		rr := <-ch
		if rr.el > maxEl {
			maxEl = rr.el
		}
		if decide(rr.res, rr.name, rr.text, rr.el) {
			return
		}
		outs = append(outs, rr.name+": "+rr.res+" "+firstLines(rr.text, 3))
	}
	o.Secs += maxEl
	// stage 3 (proof obligations only): the same goal with only the assumptions
	// in its cone of influence (dropping assumptions is sound for a proof; the
	// quantified frames of unrelated memory versions are what solvers drown in)
	if !o.ForceFilter && o.Expect == "unsat" && o.fx != nil && len(o.fx.steps[:o.NSteps]) < 400 {
		o.ForceFilter = true
		os.WriteFile(file, []byte(o.Query(false, "")), 0o644)
		for _, sp := range solvers[:2] {
			res, text, el := runSolver(context.Background(), sp, file, 20)
			if res == "unsat" {
				decide(res, sp.name+" (filtered assumptions)", text, el)
				return
			}
		}
	}
	o.Status = "unknown"
	nerr := 0
	for _, s := range outs {
		if strings.Contains(s, ": error") {
			nerr++
		}
	}
	if nerr == len(solvers) {
		o.Status = "error"
	}
	o.Output = strings.Join(outs, "\n")
}

func firstLines(s string, n int) string {
	ls := strings.Split(strings.TrimSpace(s), "\n")
	if len(ls) > n {
		ls = ls[:n]
	}
	return strings.Join(ls, " | ")
}

func dischargeAll(obs []*Oblig, dir string, par, quickSecs, fullSecs int) {
	os.MkdirAll(dir, 0o755)
	var wg sync.WaitGroup
	sem := make(chan struct{}, par)
	for _, o := range obs {
		wg.Add(1)
		sem <- struct{}{}
		go func(o *Oblig) {
			defer wg.Done()
			defer func() { <-sem }()
			discharge(o, dir, quickSecs, fullSecs)
		}(o)
	}
	wg.Wait()
}

var symRe = regexp.MustCompile(`\|[^|]+\|`)

// relevantSteps keeps the assumptions in the cone of influence of the goal:
// an assumption is kept if it shares a declared symbol with the goal, the path
// condition, or (transitively) another kept assumption.  Dropping assumptions
// is always sound; it removes e.g. the range and frame axioms of memory
// versions the obligation never mentions.
func relevantSteps(steps []string, seed string, force bool) []string {
	if (len(steps) < 400 && !force) || os.Getenv("VCGEN_NOFILTER") != "" {
		return steps
	}
	syms := make([][]string, len(steps))
	bySym := map[string][]int{}
	for i, s := range steps {
		seen := map[string]bool{}
		for _, m := range symRe.FindAllString(s, -1) {
			if !seen[m] {
				seen[m] = true
				syms[i] = append(syms[i], m)
				bySym[m] = append(bySym[m], i)
			}
		}
	}
	keep := make([]bool, len(steps))
	relevant := map[string]bool{}
	var work []string
	for _, m := range symRe.FindAllString(seed, -1) {
		if !relevant[m] {
			relevant[m] = true
			work = append(work, m)
		}
	}
	for len(work) > 0 {
		m := work[len(work)-1]
		work = work[:len(work)-1]
		for _, i := range bySym[m] {
			if keep[i] {
				continue
			}
			keep[i] = true
			for _, n := range syms[i] {
				if !relevant[n] {
					relevant[n] = true
					work = append(work, n)
				}
			}
		}
	}
	var out []string
	for i, s := range steps {
		if keep[i] || len(syms[i]) == 0 {
			out = append(out, s)
		}
	}
	return out
}
