package main

import (
	"fmt"
	"go/types"
	"math/big"
	"os"
	"path/filepath"
	"sort"
	"strings"

	"golang.org/x/tools/go/packages"
	"golang.org/x/tools/go/ssa"
	"golang.org/x/tools/go/ssa/ssautil"
)

type bigInt = big.Int

func bigI(n int64) *big.Int { return big.NewInt(n) }

const repoModule = "github.com/parquet-go/parquet-go"

type program struct {
	tags  string
	prog  *ssa.Program
	pkgs  map[string]*ssa.Package
	fns   map[string]*ssa.Function // pkgpath.relname
	tpkgs map[string]*types.Package
}

type Gen struct {
	repo      string
	files     []*ContractFile
	contracts map[string]*Contract
	dupContracts []string // functions with two unnamed contracts (the later would silently win at call sites)
	specs     map[string]*SpecFn
	axioms    []*Axiom
	lemmas    []*Lemma
	ghosts    map[string]*GhostVar
	progs     map[string]*program
	strIDs    map[string]int
	typeIDs   map[string]int
	globIDs   map[string]int
	funcIDs   map[string]int
	cur       *program
}

func NewGen(repo string) *Gen {
	return &Gen{repo: repo, contracts: map[string]*Contract{}, specs: map[string]*SpecFn{}, ghosts: map[string]*GhostVar{}, progs: map[string]*program{},
		strIDs: map[string]int{}, typeIDs: map[string]int{}, globIDs: map[string]int{}, funcIDs: map[string]int{}}
}

// LoadContracts finds every contracts_verif.go under the repository plus the
// assumed specifications of external functions under specsDir.
func (g *Gen) LoadContracts(specsDir string) error {
	var paths []string
	filepath.Walk(g.repo, func(p string, info os.FileInfo, err error) error {
		if err != nil {
			return nil
		}
		if info.IsDir() && (info.Name() == ".git" || info.Name() == "testdata") {
			return filepath.SkipDir
		}
		if !info.IsDir() && info.Name() == "contracts_verif.go" {
			paths = append(paths, p)
		}
		return nil
	})
	sort.Strings(paths)
	for _, p := range paths {
		rel, _ := filepath.Rel(g.repo, filepath.Dir(p))
		pkg := repoModule
		if rel != "." {
			pkg += "/" + filepath.ToSlash(rel)
		}
		cf, err := ParseContractFile(p, pkg)
		if err != nil {
			return err
		}
		g.addFile(cf)
	}
	// external specs: file name encodes the package path with '_' for '/'
	ext, _ := filepath.Glob(filepath.Join(specsDir, "*.spec"))
	sort.Strings(ext)
	for _, p := range ext {
		pkg := strings.ReplaceAll(strings.TrimSuffix(filepath.Base(p), ".spec"), "__", "/")
		cf, err := ParseContractFile(p, pkg)
		if err != nil {
			return err
		}
		for _, c := range cf.Contracts {
			c.Trusted = true
		}
		g.addFile(cf)
	}
	if len(g.dupContracts) > 0 {
		return fmt.Errorf("duplicate contracts (use `func F as VARIANT` for a second specification): %s", strings.Join(g.dupContracts, "; "))
	}
	return nil
}

func (g *Gen) addFile(cf *ContractFile) {
	g.files = append(g.files, cf)
	for _, c := range cf.Contracts {
		if c.Variant == "" {
			if old, dup := g.contracts[c.Pkg+"."+c.Name]; dup && old != c {
				g.dupContracts = append(g.dupContracts, fmt.Sprintf("%s.%s (%s:%d and %s:%d)", c.Pkg, c.Name, old.File, old.Line, c.File, c.Line))
			}
			g.contracts[c.Pkg+"."+c.Name] = c
		}
	}
	for _, s := range cf.Specs {
		g.specs[s.Pkg+"."+s.Name] = s
		if _, ok := g.specs[s.Name]; !ok {
			g.specs[s.Name] = s
		}
	}
	for _, gv := range cf.Ghosts {
		g.ghosts[gv.Name] = gv
	}
	g.axioms = append(g.axioms, cf.Axioms...)
	g.lemmas = append(g.lemmas, cf.Lemmas...)
}

func (g *Gen) lookupContract(pkg, name string) *Contract {
	return g.contracts[pkg+"."+name]
}

func (g *Gen) lookupSpec(pkg, name string) *SpecFn {
	if s, ok := g.specs[pkg+"."+name]; ok {
		return s
	}
	return g.specs[name]
}

func (g *Gen) typesPkg(path string) *types.Package {
	if g.cur != nil {
		if p, ok := g.cur.tpkgs[path]; ok {
			return p
		}
	}
	return nil
}

func (g *Gen) typeID(t types.Type) int {
	k := types.TypeString(t, nil)
	if id, ok := g.typeIDs[k]; ok {
		return id
	}
	id := len(g.typeIDs) + 1
	g.typeIDs[k] = id
	return id
}

func (g *Gen) globalID(gl *ssa.Global) int {
	k := gl.String()
	if id, ok := g.globIDs[k]; ok {
		return id
	}
	id := 1000000 + len(g.globIDs)
	g.globIDs[k] = id
	return id
}

func (g *Gen) funcIDByName(k string) int {
	if id, ok := g.funcIDs[k]; ok {
		return id
	}
	id := 2000000 + len(g.funcIDs)
	g.funcIDs[k] = id
	return id
}

func (g *Gen) funcID(f *ssa.Function) int {
	k := f.String()
	if f.Object() != nil {
		if fo, ok := f.Object().(*types.Func); ok {
			k = fo.FullName()
		}
	}
	if id, ok := g.funcIDs[k]; ok {
		return id
	}
	id := 2000000 + len(g.funcIDs)
	g.funcIDs[k] = id
	return id
}

// Load builds the SSA program of the given packages under the given tags from
// the repository's current working tree.
func (g *Gen) Load(tags string, pkgPaths []string) (*program, error) {
	key := tags + "|" + strings.Join(pkgPaths, ",")
	if p, ok := g.progs[key]; ok {
		return p, nil
	}
	cfg := &packages.Config{Mode: packages.LoadAllSyntax, Dir: g.repo, BuildFlags: []string{"-tags=" + tags}, Env: append(os.Environ(), "GOFLAGS=-mod=mod", "GOPROXY=off", "GOTOOLCHAIN=auto")}
	pkgs, err := packages.Load(cfg, pkgPaths...)
	if err != nil {
		return nil, err
	}
	var errs []string
	packages.Visit(pkgs, nil, func(p *packages.Package) {
		if strings.HasPrefix(p.PkgPath, repoModule) {
			for _, e := range p.Errors {
				errs = append(errs, e.Error())
			}
		}
	})
	if len(errs) > 0 {
		return nil, fmt.Errorf("repository does not type-check under tags %q: %s", tags, strings.Join(errs, "; "))
	}
	prog, _ := ssautil.AllPackages(pkgs, ssa.GlobalDebug|ssa.InstantiateGenerics)
	prog.Build()
	p := &program{tags: tags, prog: prog, pkgs: map[string]*ssa.Package{}, fns: map[string]*ssa.Function{}, tpkgs: map[string]*types.Package{}}
	for _, sp := range prog.AllPackages() {
		p.pkgs[sp.Pkg.Path()] = sp
		p.tpkgs[sp.Pkg.Path()] = sp.Pkg
	}
	for fn := range ssautil.AllFunctions(prog) {
		pk, name := fnKey(fn)
		if pk == "" {
			continue
		}
		k := pk + "." + name
		if old, ok := p.fns[k]; ok && old.Blocks != nil && fn.Blocks == nil {
			continue
		}
		p.fns[k] = fn
		if strings.HasPrefix(name, "(") && !strings.HasPrefix(name, "(*") {
			// value receiver: (T).M is also addressable as T.M
			p.fns[pk+"."+strings.Replace(strings.Replace(name, "(", "", 1), ")", "", 1)] = fn
		}
	}
	// methods of generic types (and generic functions) are not enumerated by
	// AllFunctions unless instantiated: register their generic bodies
	for _, sp := range prog.AllPackages() {
		if !strings.HasPrefix(sp.Pkg.Path(), repoModule) {
			continue
		}
		sc := sp.Pkg.Scope()
		for _, n := range sc.Names() {
			var fobjs []*types.Func
			switch o := sc.Lookup(n).(type) {
			case *types.TypeName:
				if nt, ok := o.Type().(*types.Named); ok && nt.TypeParams().Len() > 0 {
					for k := 0; k < nt.NumMethods(); k++ {
						fobjs = append(fobjs, nt.Method(k))
					}
				}
			case *types.Func:
				if sig, ok := o.Type().(*types.Signature); ok && sig.TypeParams().Len() > 0 {
					fobjs = append(fobjs, o)
				}
			}
			for _, fo := range fobjs {
				fn := prog.FuncValue(fo)
				if fn == nil || fn.Blocks == nil {
					continue
				}
				pk, name := fnKey(fn)
				if pk == "" {
					continue
				}
				if _, ok := p.fns[pk+"."+name]; !ok {
					p.fns[pk+"."+name] = fn
				}
			}
		}
	}
	g.progs[key] = p
	return p, nil
}
