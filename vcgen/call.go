package main

import (
	"fmt"
	"os"
	"go/token"
	"go/types"
	"sort"
	"strings"

	"golang.org/x/tools/go/ssa"
)

// fnKey returns (package path, relative name) used to look up a contract.
func fnKey(fn *ssa.Function) (string, string) {
	pkg := fn.Pkg
	o := fn
	for pkg == nil && o != nil {
		if o.Origin() != nil && o.Origin() != o {
			o = o.Origin()
			pkg = o.Pkg
		} else if o.Parent() != nil {
			o = o.Parent()
			pkg = o.Pkg
		} else {
			break
		}
	}
	if pkg == nil {
		return "", fn.String()
	}
	return pkg.Pkg.Path(), fn.RelString(pkg.Pkg)
}

// calleeDisplayName: the name under which assert/callkeeps directives address a call.
func calleeDisplayName(cc *ssa.CallCommon) string {
	if cc.IsInvoke() {
		return cc.Method.Name()
	}
	switch f := cc.Value.(type) {
	case *ssa.Function:
		// an instantiation of a generic function is named by its origin
		// (Unpack, not Unpack[int32])
		if o := f.Origin(); o != nil {
			return o.Name()
		}
		return f.Name()
	case *ssa.MakeClosure:
		return f.Fn.Name()
	case *ssa.Builtin:
		return f.Name()
	case *ssa.Parameter:
		return f.Name()
	case *ssa.FreeVar:
		return f.Name()
	case *ssa.UnOp:
		// load of a captured function variable: *writeRows
		if fv, ok := f.X.(*ssa.FreeVar); ok {
			return fv.Name()
		}
		if g, ok := f.X.(*ssa.Global); ok {
			return g.Name()
		}
		// load of a function-typed struct field: col.nullOrdering
		if fa, ok := f.X.(*ssa.FieldAddr); ok {
			if st, ok := fa.X.Type().Underlying().(*types.Pointer).Elem().Underlying().(*types.Struct); ok {
				return st.Field(fa.Field).Name()
			}
		}
	}
	return cc.Value.Name()
}

// instrEnv: spec environment right before an instruction (source names via DebugRefs).
func (x *fx) instrEnv(in ssa.Instruction) *specEnv {
	b := in.Block()
	local := map[string]ssa.Value{}
	for _, j := range b.Instrs {
		if j == in {
			break
		}
		switch d := j.(type) {
		case *ssa.Phi:
			if d.Comment != "" {
				local[d.Comment] = d
			}
		case *ssa.DebugRef:
			if !d.IsAddr && d.Object() != nil {
				if _, ok := d.Object().(*types.Var); ok {
					local[d.Object().Name()] = d.X
				}
			}
		}
	}
	env := &specEnv{mem: x.curMem, pkg: x.fn.Pkg.Pkg, top: x.curTop()}
	pe := x.paramEnv(x.curMem)
	env.look = func(name string) *Val {
		if sv, ok := local[name]; ok {
			if v, ok := x.lookupVal(sv); ok {
				return v
			}
		}
		if sv, ok := x.nameIn[b.Index][name]; ok {
			if v, ok := x.lookupVal(sv); ok {
				return v
			}
		}
		for _, bb := range x.fn.Blocks {
			for _, j := range bb.Instrs {
				if v, ok := j.(ssa.Value); ok && v.Name() == name {
					if r, ok := x.vals[v]; ok {
						return r
					}
				}
			}
		}
		return pe.look(name)
	}
	env.old = x.paramEnv(x.entryMem)
	return env
}

// calleeReaches: the current callee is one of the closures capturing the cell,
// or receives one of them (or any function value that could wrap them) as an argument.
func (x *fx) calleeReaches(c cellRef) bool {
	cc := x.curCallee
	if cc == nil {
		return true
	}
	isCl := func(v ssa.Value) bool {
		for _, cl := range c.closures {
			if v == cl {
				return true
			}
		}
		return false
	}
	if isCl(cc.Value) {
		return true
	}
	for _, a := range cc.Args {
		if isCl(a) {
			return true
		}
		if _, isFn := a.Type().Underlying().(*types.Signature); isFn {
			if _, isMC := a.(*ssa.MakeClosure); !isMC {
				return true // an opaque function value: could be anything
			}
		}
	}
	return false
}

func (x *fx) call(i *ssa.Call, cc *ssa.CallCommon) {
	x.curCallee = cc
	dname := calleeDisplayName(cc)
	if i != nil && len(x.c.Asserts) > 0 {
		ord := x.callOrdinal(i, dname)
		for k, cl := range x.c.Asserts {
			if cl.Kind == "assert:"+dname && cl.Loop == ord {
				if x.assertSeen == nil {
					x.assertSeen = map[int]bool{}
				}
				x.assertSeen[k] = true
				env := x.instrEnv(i)
				// arg0, arg1, ... name the call's arguments
				baseLook := env.look
				cargs := cc.Args
				env.look = func(n string) *Val {
					if strings.HasPrefix(n, "arg") {
						var k int
						if _, err := fmt.Sscanf(n[3:], "%d", &k); err == nil && k < len(cargs) {
							if v, ok := x.lookupVal(cargs[k]); ok {
								return v
							}
						}
					}
					return baseLook(n)
				}
				g := x.evalBool(cl.E, env)
				if o := x.oblige("assert", fmt.Sprintf("%s#%d:%s", dname, ord, clauseLabel(cl, k)), g, "assertion before call "+dname+"#"+fmt.Sprint(ord)+": "+cl.Src); o != nil {
					o.Src, o.Line = cl.Src, cl.Line
				}
			}
		}
	}
	if keeps, ok := x.c.CallKeeps[dname]; ok && x.curInstr != nil {
		// unmodelled callee that is assumed to leave the listed regions unchanged
		pre := x.curMem
		env := x.instrEnv(x.curInstr)
		var regs []region
		for _, e := range keeps {
			func() {
				// a keep expression that does not bind at this call site (the
				// object does not exist yet) is skipped for this call
				defer func() {
					if r := recover(); r != nil {
						if _, ok := r.(specErr); !ok {
							panic(r)
						}
					}
				}()
				regs = append(regs, x.regionsOf(e, env)...)
			}()
		}
		if os.Getenv("VCGEN_DEBUG_KEEPS") != "" && x.pass == 2 {
			fmt.Fprintf(os.Stderr, "keeps for %s: %d exprs -> %d regions\n", dname, len(keeps), len(regs))
		}
		defer func() {
			for _, r := range regs {
				oldV, newV := x.resolve(pre, r.mem), x.resolve(x.curMem, r.mem)
				if os.Getenv("VCGEN_DEBUG_KEEPS") != "" && x.pass == 2 {
					fmt.Fprintf(os.Stderr, "  keep %s: %s -> %s\n", r.mem, oldV, newV)
				}
				if oldV == newV {
					continue
				}
				x.assume(x.keepRegion(r, newV, oldV))
			}
			x.assumptions["callee "+dname+" leaves "+strings.Join(x.c.CallKeepSrc[dname], ", ")+" unchanged (callkeeps)"] = true
		}()
	}
	set := func(v *Val) {
		if i != nil && v != nil {
			if v.Tup == nil && len(v.Path) == 0 {
				x.defVal(i, v)
			} else {
				x.vals[i] = v
			}
		}
	}
	var rt types.Type
	if i != nil {
		rt = i.Type()
	} else {
		rt = cc.Signature().Results()
	}
	if cc.IsInvoke() {
		recv := x.valOf(cc.Value)
		name := cc.Method.Name()
		var args []*Val
		for _, a := range cc.Args {
			args = append(args, x.valOf(a))
		}
		if x.c.Pure[name] {
			set(x.pureMethod(recv, name, args, x.curMem))
			return
		}
		// interface method with a declared contract on the interface type
		if c2 := x.g.lookupContract(pkgPathOf(cc.Value.Type()), ifaceMethodKey(cc.Value.Type(), name)); c2 != nil {
			set(x.applyContract(c2, nil, cc.Method.Type().(*types.Signature), append([]*Val{recv}, args...), rt, name))
			return
		}
		x.unknownCall("interface method "+types.TypeString(cc.Value.Type(), nil)+"."+name, rt, set)
		return
	}
	switch f := cc.Value.(type) {
	case *ssa.Builtin:
		x.builtin(i, cc, f, set)
		return
	case *ssa.Function:
		x.staticCall(f, nil, cc, rt, set)
		return
	case *ssa.MakeClosure:
		x.staticCall(f.Fn.(*ssa.Function), f.Bindings, cc, rt, set)
		return
	}
	// dynamic call through a function value
	fv := x.valOf(cc.Value)
	name := dname
	if _, ok := x.c.FnSpecs[name]; ok || x.c.Pure[name] {
		var args []*Val
		for _, a := range cc.Args {
			args = append(args, x.valOf(a))
		}
		set(x.pureFnCall(fv, cc.Signature(), args))
		return
	}
	x.unknownCall("function value "+name, rt, set)
}

func pkgPathOf(t types.Type) string {
	if n, ok := t.(*types.Named); ok && n.Obj().Pkg() != nil {
		return n.Obj().Pkg().Path()
	}
	if p, ok := t.(*types.Pointer); ok {
		return pkgPathOf(p.Elem())
	}
	return ""
}

func ifaceMethodKey(t types.Type, m string) string {
	if n, ok := t.(*types.Named); ok {
		return n.Obj().Name() + "." + m
	}
	return "?." + m
}

func (x *fx) unknownCall(what string, rt types.Type, set func(*Val)) {
	if !x.c.Abstract {
		panic(unsupported("call to " + what + " has no contract (function is not marked abstract)"))
	}
	x.abstracted["call to "+what+" havocs all memory"] = true
	x.havocAllMem("call")
	if tup, ok := rt.(*types.Tuple); ok && tup.Len() == 0 {
		return
	}
	res := x.havocVal("ret", rt)
	set(res)
	// assumed facts about the results of this unmodelled callee (callensures)
	if x.curCallee != nil {
		dname := calleeDisplayName(x.curCallee)
		for _, cl := range x.c.CallEnsures[dname] {
			cargs := x.curCallee.Args
			env := &specEnv{mem: x.curMem, pkg: x.fn.Pkg.Pkg, top: x.curTop()}
			pe := x.paramEnv(x.curMem)
			env.look = func(n string) *Val {
				if strings.HasPrefix(n, "result") {
					k := 0
					if n != "result" {
						fmt.Sscanf(n[6:], "%d", &k)
					}
					if res.Tup != nil && k < len(res.Tup) {
						return res.Tup[k]
					}
					if res.Tup == nil && k == 0 {
						return res
					}
				}
				if strings.HasPrefix(n, "arg") {
					var k int
					if _, err := fmt.Sscanf(n[3:], "%d", &k); err == nil && k < len(cargs) {
						if v, ok := x.lookupVal(cargs[k]); ok {
							return v
						}
					}
				}
				return pe.look(n)
			}
			env.old = x.paramEnv(x.entryMem)
			x.assume(x.evalBool(cl.E, env))
			x.assumptions["callee "+dname+" satisfies: "+cl.Src+" (callensures)"] = true
		}
	}
}

func (x *fx) havocAllMem(tagp string) {
	x.nver++
	h := x.newMem("havoc", x.curMem)
	h.tag = fmt.Sprintf("%s%d", tagp, x.nver)
	h.set = nil
	base := x.frameVsEntry(x.curMem)
	ghostMods := x.pendingGhostMods
	// frames are produced lazily, when a later instruction first reads the memory:
	// the call they describe is the one being executed NOW
	atInstr, atCallee := x.curInstr, x.curCallee
	h.frame = func(n, nv, ov string) {
		saveI, saveC := x.curInstr, x.curCallee
		x.curInstr, x.curCallee = atInstr, atCallee
		defer func() { x.curInstr, x.curCallee = saveI, saveC }()
		if strings.HasPrefix(n, "$g.") && ghostMods[n] {
			return // changed by the callee: fully described by its ensures
		}
		if strings.HasPrefix(n, "$g.") {
			// an unmodelled callee is assumed not to touch ghost state
			x.assume("(= " + nv + " " + ov + ")")
			x.assumptions["unmodelled callees (abstracted mode) do not change ghost state "+n] = true
			return
		}
		base(n, nv, ov)
		// non-escaping locals of this activation are out of the callee's reach
		if !strings.HasPrefix(n, "$") {
			for _, r := range x.localRefs {
				x.assume(fmt.Sprintf("(= (select %s %s) (select %s %s))", nv, r, ov, r))
			}
			// sentinel error variables of other packages are never reassigned
			if n == "M.iface" {
				for _, r := range sortedKeys(x.sentinelRefs) {
					x.assume(fmt.Sprintf("(= (select %s %s) (select %s %s))", nv, r, ov, r))
					x.assumptions["unmodelled callees do not reassign the sentinel error variables of other packages (io.EOF, ErrXxx)"] = true
				}
			}
			// so are objects allocated here whose address has not left the function yet
			if tagp == "call" {
				for _, ha := range x.heapAllocs {
					if x.notYetEscaped(ha, x.curInstr) {
						x.assume(fmt.Sprintf("(= (select %s %s) (select %s %s))", nv, ha.ref, ov, ha.ref))
					}
				}
			}
			// so are variables captured only by closures that this callee neither is nor receives
			for _, c := range x.cellRefs {
				if !x.calleeReaches(c) {
					x.assume(fmt.Sprintf("(= (select %s %s) (select %s %s))", nv, c.ref, ov, c.ref))
					x.assumptions["a variable captured by closures is changed only by those closures or by a callee they are passed to"] = true
				}
			}
		}
	}
	pre := x.curMem
	x.curMem = h
	x.noteHavocAll()
	x.initKeepAll()
	regs := x.keepAllRegs
	if len(x.keepAllLocal) > 0 && x.curInstr != nil {
		x.curMem = pre
		env := x.instrEnv(x.curInstr)
		for _, e := range x.keepAllLocal {
			func() {
				defer func() {
					if r := recover(); r != nil {
						if _, ok := r.(specErr); !ok {
							panic(r)
						}
					}
				}()
				regs = append(regs[:len(regs):len(regs)], x.regionsOf(e, env)...)
			}()
		}
		x.curMem = h
	}
	for _, r := range regs {
		oldV, newV := x.resolve(pre, r.mem), x.resolve(x.curMem, r.mem)
		if oldV != newV {
			x.assume(x.keepRegion(r, newV, oldV))
		}
	}
	if len(regs) > 0 {
		x.assumptions["no unmodelled callee changes "+strings.Join(x.c.CallKeepSrc["*"], ", ")+" (keepsall)"] = true
	}
}


// initKeepAll evaluates the keepsall regions that bind at function entry (over
// parameters); expressions over locals are kept aside and evaluated per call.
func (x *fx) initKeepAll() {
	keeps := x.c.CallKeeps["*"]
	if len(keeps) == 0 || x.keepAllInit {
		return
	}
	x.keepAllInit = true
	save := x.curMem
	x.curMem = x.entryMem
	env := x.paramEnv(x.entryMem)
	for _, e := range keeps {
		if mentionsCell(e) {
			// the cell of a local variable does not exist at function entry
			x.keepAllLocal = append(x.keepAllLocal, e)
			continue
		}
		func() {
			defer func() {
				if r := recover(); r != nil {
					if _, ok := r.(specErr); !ok {
						panic(r)
					}
					x.keepAllLocal = append(x.keepAllLocal, e)
				}
			}()
			x.keepAllRegs = append(x.keepAllRegs, x.regionsOf(e, env)...)
		}()
	}
	x.curMem = save
}

func mentionsCell(e *Expr) bool {
	if e == nil {
		return false
	}
	if e.Op == "call" && len(e.Args) > 0 && e.Args[0].Op == "id" && e.Args[0].Name == "cell" {
		return true
	}
	for _, a := range e.Args {
		if mentionsCell(a) {
			return true
		}
	}
	return false
}

func (x *fx) staticCall(f *ssa.Function, bindings []ssa.Value, cc *ssa.CallCommon, rt types.Type, set func(*Val)) {
	var args []*Val
	for _, a := range cc.Args {
		args = append(args, x.valOf(a))
	}
	pkg, name := fnKey(f)
	full := pkg + "." + name
	if (x.c.Pure[name] || x.c.Pure[f.Name()]) && f.Signature.Recv() != nil && len(args) > 0 {
		// pure method: an uninterpreted function of the receiver's *value* (and arguments)
		recv := args[0]
		if pt, ok := recv.T.Underlying().(*types.Pointer); ok {
			if _, isStruct := pt.Elem().Underlying().(*types.Struct); isStruct {
				recv = x.load(x.curMem, recv)
			}
		}
		set(x.pureMethod(recv, f.Name(), args[1:], x.curMem))
		return
	}
	if x.c.Pure[name] || x.c.Pure[f.Name()] {
		// pure static function as UF
		fv := &Val{T: f.Type(), S: fmt.Sprint(x.g.funcID(f))}
		set(x.pureFnCall(fv, f.Signature, args))
		return
	}
	if full == "bytes.Equal" && x.c.Pure["Compare"] {
		// bytes.Equal(a, b) == (bytes.Compare(a, b) == 0)
		var cmpSig *types.Signature
		for _, imp := range x.fn.Pkg.Pkg.Imports() {
			if imp.Name() == "bytes" {
				if fo, ok := imp.Scope().Lookup("Compare").(*types.Func); ok {
					cmpSig = fo.Type().(*types.Signature)
				}
			}
		}
		if cmpSig != nil {
			fv := &Val{T: cmpSig, S: fmt.Sprint(x.g.funcIDByName("bytes.Compare"))}
			c := x.pureFnCall(fv, cmpSig, args)
			set(&Val{T: tBool, S: "(= " + c.S + " " + x.intConst(bigI(0), tInt) + ")"})
			x.assumptions["bytes.Equal(a,b) == (bytes.Compare(a,b) == 0)"] = true
			return
		}
	}
	if x.externalModel(full, f, args, rt, set) {
		return
	}
	c2 := x.g.lookupContract(pkg, name)
	if c2 == nil && strings.HasPrefix(name, "(") && !strings.HasPrefix(name, "(*") {
		c2 = x.g.lookupContract(pkg, strings.Replace(strings.Replace(name, "(", "", 1), ")", "", 1))
	}
	if c2 == nil && f.Origin() != nil && f.Origin() != f {
		_, oname := fnKey(f.Origin())
		c2 = x.g.lookupContract(pkg, oname)
	}
	if c2 == nil {
		x.unknownCall(full, rt, set)
		return
	}
	var bvals []*Val
	for _, b := range bindings {
		bvals = append(bvals, x.valOf(b))
	}
	set(x.applyContract(c2, f, f.Signature, append(args, bvals...), rt, name))
}

// applyContract: assert requires, havoc modifies, assume ensures.
func (x *fx) applyContract(c2 *Contract, f *ssa.Function, sig *types.Signature, args []*Val, rt types.Type, name string) *Val {
	x.calls[c2.Pkg+"."+c2.Name] = true
	if c2.Trusted {
		x.trusted[c2.Pkg+"."+c2.Name] = true
	}
	if c2.Mode != x.mode {
		// contracts are mode-agnostic text; they are re-interpreted in the caller's mode
	}
	// parameter names
	var pnames []string
	if f != nil {
		for _, p := range f.Params {
			pnames = append(pnames, p.Name())
		}
		for _, p := range f.FreeVars {
			pnames = append(pnames, p.Name())
		}
	} else {
		pnames = append(pnames, "recv")
		for k := 0; k < sig.Params().Len(); k++ {
			pn := sig.Params().At(k).Name()
			if pn == "" || pn == "_" {
				// unnamed interface-method parameters are arg0, arg1, ...
				pn = fmt.Sprintf("arg%d", k)
			}
			pnames = append(pnames, pn)
		}
	}
	pm := map[string]*Val{}
	for k, n := range pnames {
		if k < len(args) {
			pm[n] = args[k]
		}
	}
	var pkgT *types.Package
	if f != nil && f.Pkg != nil {
		pkgT = f.Pkg.Pkg
	} else {
		pkgT = x.g.typesPkg(c2.Pkg)
	}
	pre := x.curMem
	preTop := x.curTop()
	envPre := &specEnv{mem: pre, pkg: pkgT, top: preTop}
	envPre.look = func(n string) *Val { return pm[n] }
	envPre.old = envPre
	savedC := x.c
	// spec functions are looked up in the callee's package
	evalIn := func(e *Expr, env *specEnv) string {
		x.c = &Contract{Pkg: c2.Pkg, Name: savedC.Name, Mode: savedC.Mode, Pure: savedC.Pure, FnSpecs: savedC.FnSpecs, NoOverflow: savedC.NoOverflow, NoPanicOff: savedC.NoPanicOff, Abstract: savedC.Abstract, ModAll: savedC.ModAll}
		defer func() { x.c = savedC }()
		return x.evalBool(e, env)
	}
	preHolds := "true"
	for k, cl := range c2.Requires {
		g := evalIn(cl.E, envPre)
		if savedC.NoPre {
			preHolds = x.and(preHolds, g)
			continue
		}
		if o := x.oblige("pre", name+":"+clauseLabel(cl, k), g, "precondition of "+name+": "+cl.Src); o != nil {
			o.Src, o.Line = cl.Src, cl.Line
		}
	}
	// function-typed arguments must satisfy the callee's fnspecs
	for pn, spec := range c2.FnSpecs {
		if av, ok := pm[pn]; ok && spec != "pure" {
			x.c = &Contract{Pkg: c2.Pkg, Name: savedC.Name, Mode: savedC.Mode}
			ax := x.fnSpecAxioms(av, spec)
			x.c = savedC
			x.oblige("pre", name+":fnspec:"+pn, x.and(ax...), "argument "+pn+" of "+name+" satisfies "+spec)
		}
	}
	// frame
	if c2.ModAll {
		// ghost variables the callee lists are described by its ensures, not framed
		x.pendingGhostMods = map[string]bool{}
		for _, cl := range c2.Modifies {
			if cl.E != nil && cl.E.Op == "id" {
				if gv, ok := x.g.ghosts[cl.E.Name]; ok {
					gn, _ := x.ghostMem(gv)
					x.pendingGhostMods[gn] = true
				}
			}
		}
		x.havocAllMem("call")
		x.pendingGhostMods = nil
	} else if len(c2.Modifies) > 0 {
		var regs []region
		x.c = &Contract{Pkg: c2.Pkg, Name: savedC.Name, Mode: savedC.Mode, Pure: savedC.Pure, FnSpecs: savedC.FnSpecs}
		for _, cl := range c2.Modifies {
			regs = append(regs, x.regionsOf(cl.E, envPre)...)
		}
		x.c = savedC
		names := map[string]bool{}
		for _, r := range regs {
			names[r.mem] = true
			x.noteWrite(r.mem)
		}
		// callee regions must lie inside the caller's own frame
		if !x.c.ModAll && x.pass == 2 {
			for _, r := range regs {
				if x.freshRefs[r.ref] {
					continue
				}
				if r.ref == "ghost" {
					ok := false
					for _, q := range x.regions {
						if q.mem == r.mem {
							ok = true
						}
					}
					if !ok {
						x.oblige("frame", "ghost:"+name, "false", "callee "+name+" changes ghost state "+r.mem+" which this function's modifies clause does not list")
					}
					continue
				}
				var in []string
				in = append(in, "(>= "+r.ref+" "+x.top0+")", x.ile(r.hi, r.lo))
				for _, q := range x.regions {
					if q.mem == r.mem && (q.sub == nil || (r.sub != nil && subPrefix(q.sub, r.sub))) {
						in = append(in, x.and("(= "+r.ref+" "+q.ref+")", x.ile(q.lo, r.lo), x.ile(r.hi, q.hi)))
					}
				}
				x.oblige("frame", "call:"+name, x.or(in...), "callee "+name+" modifies only what this function may modify ("+r.mem+")")
			}
		}
		x.nver++
		h := x.newMem("havoc", x.curMem)
		h.tag = fmt.Sprintf("c%d", x.nver)
		h.set = names
		h.set["$top"] = true
		h.frame = func(n, newV, oldV string) {
			if n == "$top" {
				x.assume("(>= " + newV + " " + oldV + ")")
				return
			}
			if strings.HasPrefix(n, "$g.") {
				return // ghost state: fully described by the callee's ensures
			}
			x.assume(x.frameFormula(n, newV, oldV, regs, preTop))
		}
		x.curMem = h
	} else {
		// no modifies clause: the callee writes nothing the caller can see; it may allocate
		x.nver++
		h := x.newMem("havoc", x.curMem)
		h.tag = fmt.Sprintf("c%d", x.nver)
		h.set = map[string]bool{"$top": true}
		h.frame = func(n, newV, oldV string) { x.assume("(>= " + newV + " " + oldV + ")") }
		x.curMem = h
	}
	// results
	var res *Val
	nres := sig.Results().Len()
	if nres > 0 {
		if nres == 1 {
			res = x.havocVal("ret."+sanitize(name), sig.Results().At(0).Type())
		} else {
			res = x.havocVal("ret."+sanitize(name), sig.Results())
		}
	}
	envPost := &specEnv{mem: x.curMem, pkg: pkgT, top: x.curTop(), callSite: true}
	envPost.look = func(n string) *Val {
		if strings.HasPrefix(n, "result") && res != nil {
			k := 0
			if n != "result" {
				fmt.Sscanf(n[6:], "%d", &k)
			}
			if res.Tup != nil {
				if k < len(res.Tup) {
					return res.Tup[k]
				}
			} else if k == 0 {
				return res
			}
		}
		for k := 0; k < nres; k++ {
			if rn := sig.Results().At(k).Name(); rn == n && rn != "" && rn != "_" {
				if res.Tup != nil {
					return res.Tup[k]
				}
				return res
			}
		}
		return pm[n]
	}
	envPost.old = envPre
	for k, cl := range c2.Ensures {
		if savedC.Ignore[name+"."+clauseLabel(cl, k)] {
			continue // `ignore CALLEE.label`: verified without this assumption
		}
		// a postcondition that mentions a local of the callee is checked inside the
		// callee only; it tells the caller nothing (skipped: fewer assumptions)
		var e string
		skip := false
		func() {
			defer func() {
				if r := recover(); r != nil {
					if se, ok := r.(specErr); ok && strings.HasPrefix(string(se), "unbound name ") {
						skip = true
						return
					}
					panic(r)
				}
			}()
			e = evalIn(cl.E, envPost)
		}()
		if skip {
			continue
		}
		if preHolds != "true" {
			e = "(=> " + preHolds + " " + e + ")"
		}
		x.assumeAt(x.curPC, e)
	}
	return res
}

// regionsOf evaluates a modifies designator.
func (x *fx) regionsOf(e *Expr, env *specEnv) []region {
	// allof(T.f): field f of every object of the struct type T of this package
	// (only meaningful in callkeeps / keepsall)
	if e.Op == "call" && len(e.Args) == 2 && e.Args[0].Op == "id" && e.Args[0].Name == "allof" && e.Args[1].Op == "field" && e.Args[1].Args[0].Op == "id" {
		tn, fn := e.Args[1].Args[0].Name, e.Args[1].Name
		if env.pkg != nil {
			if o, ok := env.pkg.Scope().Lookup(tn).(*types.TypeName); ok {
				if st, ok := o.Type().Underlying().(*types.Struct); ok {
					for k := 0; k < st.NumFields(); k++ {
						if st.Field(k).Name() == fn {
							return []region{{mem: x.fieldMemName(o.Type(), st, k), ref: "*all*", lo: x.idxConst(0), hi: x.idxConst(0)}}
						}
					}
				}
			}
		}
		panic(specErr("allof(" + tn + "." + fn + "): no such struct field"))
	}
	if e.Op == "id" && env.look(e.Name) == nil {
		if gv, ok := x.g.ghosts[e.Name]; ok {
			name, _ := x.ghostMem(gv)
			return []region{{mem: name, ref: "ghost"}}
		}
	}
	// p.f : a single field of the struct p points to
	if e.Op == "field" {
		base := x.eval(e.Args[0], env)
		if _, isPtr := base.T.Underlying().(*types.Pointer); !isPtr {
			// p.s.f : a field of a struct VALUE nested in the object p points to: the
			// cell of the enclosing root field, narrowed to the nested component
			if pa, ok := x.specAddr(e, env); ok && len(pa.Path) > 1 {
				off := ptrOff(pa.S)
				r := region{mem: x.fieldMemNameOf(pa.Path[0]), ref: ptrRef(pa.S), lo: off, hi: x.iadd(off, x.idxConst(1))}
				r.sub = append([]pathEl{}, pa.Path[1:]...)
				r.subT = pa.Path[0].T
				return []region{r}
			}
		}
		if pt, ok := base.T.Underlying().(*types.Pointer); ok && len(base.Path) > 0 {
			// field of a struct embedded in a heap object: the enclosing root field is the
			// region, narrowed to the nested component when the path is made of fields only
			off := ptrOff(base.S)
			r := region{mem: x.fieldMemNameOf(base.Path[0]), ref: ptrRef(base.S), lo: off, hi: x.iadd(off, x.idxConst(1))}
			if st, ok := pt.Elem().Underlying().(*types.Struct); ok {
				sub := append([]pathEl{}, base.Path[1:]...)
				fieldsOnly := true
				for _, pe := range sub {
					if pe.IsIdx {
						fieldsOnly = false
					}
				}
				for k := 0; k < st.NumFields() && fieldsOnly; k++ {
					if st.Field(k).Name() == e.Name {
						r.sub = append(sub, pathEl{Field: k, Name: e.Name, T: st.Field(k).Type(), ST: st})
						r.subT = base.Path[0].T
					}
				}
			}
			return []region{r}
		}
		if pt, ok := base.T.Underlying().(*types.Pointer); ok && len(base.Path) == 0 {
			if st, ok := pt.Elem().Underlying().(*types.Struct); ok {
				for k := 0; k < st.NumFields(); k++ {
					if st.Field(k).Name() == e.Name {
						off := ptrOff(base.S)
						return []region{{mem: x.fieldMemName(pt.Elem(), st, k), ref: ptrRef(base.S), lo: off, hi: x.iadd(off, x.idxConst(1))}}
					}
				}
			}
		}
	}
	v := x.eval(e, env)
	var out []region
	addElem := func(et types.Type, ref, lo, hi string) {
		for {
			a, ok := et.Underlying().(*types.Array)
			if !ok {
				break
			}
			lo, hi = x.imul(lo, x.idxConst(a.Len())), x.imul(hi, x.idxConst(a.Len()))
			et = a.Elem()
		}
		if st, ok := structOf(et); ok {
			for k := 0; k < st.NumFields(); k++ {
				out = append(out, region{mem: x.fieldMemName(et, st, k), ref: ref, lo: lo, hi: hi})
			}
			return
		}
		out = append(out, region{mem: x.memName(et), ref: ref, lo: lo, hi: hi})
	}
	switch u := v.T.Underlying().(type) {
	case *types.Slice:
		addElem(u.Elem(), slBase(v.S), slOff(v.S), x.iadd(slOff(v.S), slLen(v.S)))
	case *types.Pointer:
		if len(v.Path) > 0 {
			panic(specErr("modifies through interior pointer"))
		}
		off := ptrOff(v.S)
		if a, ok := u.Elem().Underlying().(*types.Array); ok {
			addElem(a.Elem(), ptrRef(v.S), off, x.iadd(off, x.idxConst(a.Len())))
		} else {
			addElem(u.Elem(), ptrRef(v.S), off, x.iadd(off, x.idxConst(1)))
		}
	default:
		panic(specErr(fmt.Sprintf("modifies %s: not a slice or pointer (%s)", e, v.T)))
	}
	return out
}

func (x *fx) builtin(i *ssa.Call, cc *ssa.CallCommon, b *ssa.Builtin, set func(*Val)) {
	var args []*Val
	for _, a := range cc.Args {
		args = append(args, x.valOf(a))
	}
	switch b.Name() {
	case "len", "cap":
		v := args[0]
		switch u := cc.Args[0].Type().Underlying().(type) {
		case *types.Slice:
			if b.Name() == "len" {
				set(&Val{T: tInt, S: slLen(v.S)})
			} else {
				set(&Val{T: tInt, S: slCap(v.S)})
			}
		case *types.Basic:
			set(&Val{T: tInt, S: slLen(v.S)})
		case *types.Array:
			set(&Val{T: tInt, S: x.idxConst(u.Len())})
		case *types.Pointer:
			set(&Val{T: tInt, S: x.idxConst(u.Elem().Underlying().(*types.Array).Len())})
		case *types.Map, *types.Chan:
			r := x.havocVal("maplen", tInt)
			x.assume(x.ile(x.idxConst(0), r.S))
			set(r)
		default:
			panic(unsupported("len of " + cc.Args[0].Type().String()))
		}
	case "min", "max":
		r := args[0]
		for _, a := range args[1:] {
			c := x.binop(token.LSS, a, r, tBool, false).S
			if b.Name() == "max" {
				c = x.binop(token.GTR, a, r, tBool, false).S
			}
			r = &Val{T: r.T, S: fmt.Sprintf("(ite %s %s %s)", c, a.S, r.S)}
		}
		set(r)
	case "copy":
		x.copyBuiltin(args[0], args[1], cc.Args[0].Type(), cc.Args[1].Type(), set)
	case "append":
		x.appendBuiltin(args[0], args[1], cc.Args[0].Type(), cc.Args[1].Type(), set)
	case "clear":
		x.clearBuiltin(args[0], cc.Args[0].Type())
	case "print", "println":
	case "delete":
	case "ssa:wrapnilchk":
		set(args[0])
	case "SliceData":
		// unsafe.SliceData(s): the address of s[0] (no bounds check, no dereference)
		if u, ok := cc.Args[0].Type().Underlying().(*types.Slice); ok {
			s := args[0]
			set(&Val{T: i.Type(), S: fmt.Sprintf("(mk-ptr %s %s)", slBase(s.S), x.arrOff(slOff(s.S), u.Elem()))})
		} else {
			panic(unsupported("builtin " + b.Name()))
		}
	default:
		panic(unsupported("builtin " + b.Name()))
	}
}

func (x *fx) elemMems(et types.Type) []string {
	for {
		a, ok := et.Underlying().(*types.Array)
		if !ok {
			break
		}
		et = a.Elem()
	}
	if st, ok := structOf(et); ok {
		var ns []string
		for k := 0; k < st.NumFields(); k++ {
			ns = append(ns, x.fieldMemName(et, st, k))
		}
		return ns
	}
	return []string{x.memName(et)}
}

func arrScale(et types.Type) int64 {
	n := int64(1)
	for {
		a, ok := et.Underlying().(*types.Array)
		if !ok {
			return n
		}
		n *= a.Len()
		et = a.Elem()
	}
}

// rangeWrite replaces elements [lo,hi) of row `ref` of every memory of
// element type et by f(i) (a term over the bound variable i and the memory
// name) and leaves everything else unchanged.
func (x *fx) rangeWrite(et types.Type, ref, lo, hi string, val func(mem, i string) string, checkFrame bool) {
	sc := arrScale(et)
	if sc != 1 {
		lo, hi = x.imul(lo, x.idxConst(sc)), x.imul(hi, x.idxConst(sc))
	}
	for _, name := range x.elemMems(et) {
		if checkFrame && !x.c.ModAll && x.pass == 2 && !x.freshRefs[ref] {
			var in []string
			in = append(in, "(>= "+ref+" "+x.top0+")", x.ile(hi, lo))
			for _, q := range x.regions {
				if q.mem == name && q.sub == nil {
					in = append(in, x.and("(= "+ref+" "+q.ref+")", x.ile(q.lo, lo), x.ile(hi, q.hi)))
				}
			}
			x.oblige("frame", "range", x.or(in...), "bulk write to "+name+" stays inside the modifies clause")
		}
		cur := x.resolve(x.curMem, name)
		x.nver++
		nv := x.declMemVersion(name, fmt.Sprintf("w%d", x.nver))
		idx := x.idxSort()
		// (bound variables are named q!r / q!i: no Go identifier can capture them)
		x.assume(fmt.Sprintf("(forall ((q!r Int)) (! (=> (not (= q!r %s)) (= (select %s q!r) (select %s q!r))) :pattern ((select %s q!r))))", ref, nv, cur, nv))
		x.assume(fmt.Sprintf("(forall ((q!i %s)) (! (= (select (select %s %s) q!i) (ite %s %s (select (select %s %s) q!i))) :pattern ((select (select %s %s) q!i))))",
			idx, nv, ref, x.and(x.ile(lo, "q!i"), x.ilt("q!i", hi)), val(name, "q!i"), cur, ref, nv, ref))
		n := x.newMem("store", x.curMem)
		n.name = name
		n.term = nv
		x.curMem = n
		x.noteWrite(name)
	}
}

func (x *fx) copyBuiltin(dst, src *Val, dt, st types.Type, set func(*Val)) {
	et := dt.Underlying().(*types.Slice).Elem()
	n := fmt.Sprintf("(ite %s %s %s)", x.ile(slLen(dst.S), slLen(src.S)), slLen(dst.S), slLen(src.S))
	nn := x.fresh("copyn", x.idxSort())
	x.assume("(= " + nn + " " + n + ")")
	pre := x.curMem
	sc := arrScale(et)
	dlo := x.imul(slOff(dst.S), x.idxConst(sc))
	slo := x.imul(slOff(src.S), x.idxConst(sc))
	if sc == 1 {
		dlo, slo = slOff(dst.S), slOff(src.S)
	}
	x.rangeWrite(et, slBase(dst.S), slOff(dst.S), x.iadd(slOff(dst.S), nn), func(mem, i string) string {
		return x.memRead(pre, mem, slBase(src.S), x.iadd(slo, x.isub(i, dlo)))
	}, true)
	set(&Val{T: tInt, S: nn})
}

func (x *fx) clearBuiltin(s *Val, t types.Type) {
	sl, ok := t.Underlying().(*types.Slice)
	if !ok {
		return // map
	}
	et := sl.Elem()
	x.rangeWrite(et, slBase(s.S), slOff(s.S), x.iadd(slOff(s.S), slLen(s.S)), func(mem, i string) string {
		return x.zero(x.memType[mem])
	}, true)
}

func (x *fx) appendBuiltin(s, t *Val, stype, ttype types.Type, set func(*Val)) {
	et := stype.Underlying().(*types.Slice).Elem()
	if arrScale(et) != 1 {
		if x.c.Abstract {
			x.abstracted["append on a slice of arrays (result and element memory unconstrained)"] = true
			name := x.memName(et)
			x.nver++
			h := x.newMem("havoc", x.curMem)
			h.tag = fmt.Sprintf("arrapp%d", x.nver)
			h.set = map[string]bool{name: true}
			x.curMem = h
			x.noteWrite(name)
			res := x.havocVal("append", stype)
			// the length is still known: len(s) + len(t)
			x.assume("(= " + slLen(res.S) + " " + x.iadd(slLen(s.S), slLen(t.S)) + ")")
			set(res)
			return
		}
		panic(unsupported("append on slice of arrays"))
	}
	tl := slLen(t.S)
	if isString(ttype) {
		tl = slLen(t.S)
	}
	newLen := x.fresh("applen", x.idxSort())
	x.assume("(= " + newLen + " " + x.iadd(slLen(s.S), tl) + ")")
	x.assume(x.lenBound(newLen))
	inPlace := x.ile(newLen, slCap(s.S))
	// result slice (the fresh reference is allocated first so that the result's
	// validity "base < top" is stated against the allocation counter after it)
	ref := x.newRef("append")
	res := x.havocVal("append", stype)
	x.assume(fmt.Sprintf("(=> %s (and (= (s-base %s) (s-base %s)) (= (s-off %s) (s-off %s)) (= (s-cap %s) (s-cap %s))))", inPlace, res.S, s.S, res.S, s.S, res.S, s.S))
	x.assume(fmt.Sprintf("(=> (not %s) (and (= (s-base %s) %s) (= (s-off %s) %s) %s))", inPlace, res.S, ref, res.S, x.idxConst(0), x.ile(newLen, slCap(res.S))))
	x.assume("(= " + slLen(res.S) + " " + newLen + ")")
	pre := x.curMem
	// appended elements land at [off+len(s), off+newLen) of the result's row; when
	// reallocated the prefix is copied too
	rb, ro := slBase(res.S), slOff(res.S)
	lo := fmt.Sprintf("(ite %s %s %s)", inPlace, x.iadd(ro, slLen(s.S)), ro)
	hi := x.iadd(ro, newLen)
	// frame obligation only matters for the in-place case
	if !x.c.ModAll && x.pass == 2 && !x.freshRefs[slBase(s.S)] {
		for _, name := range x.elemMems(et) {
			var in []string
			in = append(in, not(inPlace), "(>= "+slBase(s.S)+" "+x.top0+")", x.ile(tl, x.idxConst(0)))
			for _, q := range x.regions {
				if q.mem == name && q.sub == nil {
					in = append(in, x.and("(= "+slBase(s.S)+" "+q.ref+")", x.ile(q.lo, x.iadd(slOff(s.S), slLen(s.S))), x.ile(x.iadd(slOff(s.S), newLen), q.hi)))
				}
			}
			x.oblige("frame", "append", x.or(in...), "in-place append to "+name+" stays inside the modifies clause")
		}
	}
	x.rangeWrite(et, rb, lo, hi, func(mem, i string) string {
		k := x.isub(i, ro)
		fromS := x.memRead(pre, mem, slBase(s.S), x.iadd(slOff(s.S), k))
		fromT := x.memRead(pre, mem, slBase(t.S), x.iadd(slOff(t.S), x.isub(k, slLen(s.S))))
		return fmt.Sprintf("(ite %s %s %s)", x.ilt(k, slLen(s.S)), fromS, fromT)
	}, false)
	set(res)
}

// externalModel gives built-in semantics to a few library functions.
func (x *fx) externalModel(full string, f *ssa.Function, args []*Val, rt types.Type, set func(*Val)) bool {
	switch full {
	case "math.IsNaN":
		set(&Val{T: tBool, S: "(fp.isNaN " + args[0].S + ")"})
		return true
	case "math.Float32bits", "math.Float64bits", "math.Float32frombits", "math.Float64frombits":
		// reinterpretation: an uninterpreted bijection pair (bit-exact in bv mode via to_fp is partial on NaN)
		from, to := x.sortOf(f.Signature.Params().At(0).Type()), x.sortOf(f.Signature.Results().At(0).Type())
		fn := "|" + full + "|"
		x.declareFun(fn, []string{from}, to)
		r := "(" + fn + " " + args[0].S + ")"
		inv := map[string]string{"math.Float32bits": "math.Float32frombits", "math.Float32frombits": "math.Float32bits", "math.Float64bits": "math.Float64frombits", "math.Float64frombits": "math.Float64bits"}[full]
		x.declareFun("|"+inv+"|", []string{to}, from)
		if strings.HasSuffix(full, "bits") && !strings.Contains(full, "from") {
			x.assume(fmt.Sprintf("(= (|%s| %s) %s)", inv, r, args[0].S))
		}
		x.assume(x.valid(r, f.Signature.Results().At(0).Type(), x.curTop()))
		set(&Val{T: f.Signature.Results().At(0).Type(), S: r})
		return true
	case "math/bits.Len32", "math/bits.Len64", "math/bits.Len8", "math/bits.Len16", "math/bits.Len":
		w := intWidth(f.Signature.Params().At(0).Type())
		if x.mode == ModeBV {
			// Len(x) = number of bits needed: nested ite over the highest set bit
			t := smtBV(bigI(0), 64)
			for k := 0; k < w; k++ {
				t = fmt.Sprintf("(ite (= ((_ extract %d %d) %s) #b1) %s %s)", k, k, args[0].S, smtBV(bigI(int64(k+1)), 64), t)
			}
			set(&Val{T: tInt, S: t})
		} else {
			x.declareFun("bitlen", []string{"Int"}, "Int")
			x.declareFun("pow2", []string{"Int"}, "Int")
			r := "(bitlen " + args[0].S + ")"
			x.assume(fmt.Sprintf("(and (<= 0 %s) (<= %s %d) (= (= %s 0) (= %s 0)) (< %s (pow2 %s)) (=> (> %s 0) (>= %s (pow2 (- %s 1)))))", r, r, w, r, args[0].S, args[0].S, r, r, args[0].S, r))
			set(&Val{T: tInt, S: r})
		}
		return true
	case "math/bits.TrailingZeros64", "math/bits.TrailingZeros32", "math/bits.LeadingZeros64", "math/bits.LeadingZeros32", "math/bits.OnesCount64":
		w := intWidth(f.Signature.Params().At(0).Type())
		if x.mode == ModeBV {
			var t string
			switch {
			case strings.Contains(full, "Trailing"):
				// characterised rather than computed: t is the unique count with
				// w == 0 => t == W;  w != 0 => t < W, bit t set, the t low bits clear
				tv := x.fresh("tz", "(_ BitVec 64)")
				wv := args[0].S
				tw := tv
				if w < 64 {
					tw = fmt.Sprintf("((_ extract %d 0) %s)", w-1, tv)
				}
				one, zero := smtBV(bigI(1), w), smtBV(bigI(0), w)
				x.assume(fmt.Sprintf("(ite (= %s %s) (= %s %s) (and (bvult %s %s) (= (bvand (bvlshr %s %s) %s) %s) (= (bvand %s (bvsub (bvshl %s %s) %s)) %s)))",
					wv, zero, tv, smtBV(bigI(int64(w)), 64),
					tv, smtBV(bigI(int64(w)), 64), wv, tw, one, one,
					wv, one, tw, one, zero))
				t = tv
			case strings.Contains(full, "Leading"):
				t = smtBV(bigI(int64(w)), 64)
				for k := 0; k < w; k++ {
					t = fmt.Sprintf("(ite (= ((_ extract %d %d) %s) #b1) %s %s)", k, k, args[0].S, smtBV(bigI(int64(w-1-k)), 64), t)
				}
			default:
				t = smtBV(bigI(0), 64)
				for k := 0; k < w; k++ {
					t = fmt.Sprintf("(bvadd %s ((_ zero_extend 63) ((_ extract %d %d) %s)))", t, k, k, args[0].S)
				}
			}
			set(&Val{T: tInt, S: t})
		} else {
			r := x.havocVal("bitcount", tInt)
			x.assume(fmt.Sprintf("(and (<= 0 %s) (<= %s %d))", r.S, r.S, w))
			set(r)
		}
		return true
	case "math/bits.RotateLeft64", "math/bits.RotateLeft32":
		if x.mode == ModeBV {
			w := intWidth(f.Signature.Params().At(0).Type())
			if c, ok := constInt(args[1].S); ok {
				k := int(new(bigInt).Mod(c, bigI(int64(w))).Int64())
				set(&Val{T: f.Signature.Results().At(0).Type(), S: fmt.Sprintf("((_ rotate_left %d) %s)", k, args[0].S)})
				return true
			}
		}
	}
	return false
}

// callOrdinal: 1-based ordinal of call i among the calls of the same display
// name in the function, in source order.
func (x *fx) callOrdinal(i *ssa.Call, name string) int {
	if x.callOrd == nil {
		x.callOrd = map[*ssa.Call]int{}
		byName := map[string][]*ssa.Call{}
		for _, b := range x.fn.Blocks {
			for _, in := range b.Instrs {
				if c, ok := in.(*ssa.Call); ok {
					n := calleeDisplayName(c.Common())
					byName[n] = append(byName[n], c)
				}
			}
		}
		for _, cs := range byName {
			sort.SliceStable(cs, func(a, b int) bool { return cs[a].Pos() < cs[b].Pos() })
			for k, c := range cs {
				x.callOrd[c] = k + 1
			}
		}
	}
	return x.callOrd[i]
}

// keepRegion: region r has the same contents in memory versions newV and oldV.
// Single-cell regions (fields of one struct object) need no quantifier.
func (x *fx) keepRegion(r region, newV, oldV string) string {
	if r.ref == "*all*" {
		// allof(T.f): the field f of EVERY object of type T
		return "(= " + newV + " " + oldV + ")"
	}
	if r.sub != nil {
		nc := fmt.Sprintf("(select (select %s %s) %s)", newV, r.ref, r.lo)
		oc := fmt.Sprintf("(select (select %s %s) %s)", oldV, r.ref, r.lo)
		return "(= " + x.applyPath(nc, r.subT, r.sub) + " " + x.applyPath(oc, r.subT, r.sub) + ")"
	}
	if r.hi == x.iadd(r.lo, x.idxConst(1)) {
		return fmt.Sprintf("(= (select (select %s %s) %s) (select (select %s %s) %s))", newV, r.ref, r.lo, oldV, r.ref, r.lo)
	}
	return fmt.Sprintf("(forall ((q!i %s)) (! (=> %s (= (select (select %s %s) q!i) (select (select %s %s) q!i))) :pattern ((select (select %s %s) q!i))))",
		x.idxSort(), x.and(x.ile(r.lo, "q!i"), x.ilt("q!i", r.hi)), newV, r.ref, oldV, r.ref, newV, r.ref)
}

// specAddr returns the address (a pointer value with a component path) of a field
// selection chain p.a.b.c that starts at a pointer-valued expression p and walks
// through struct VALUES only (embedded structs are looked through by name).
func (x *fx) specAddr(e *Expr, env *specEnv) (pv *Val, ok bool) {
	if e.Op != "field" {
		return nil, false
	}
	defer func() {
		if r := recover(); r != nil {
			if _, isSpec := r.(specErr); !isSpec {
				panic(r)
			}
			pv, ok = nil, false
		}
	}()
	var bp *Val
	bv := x.eval(e.Args[0], env)
	if _, isPtr := bv.T.Underlying().(*types.Pointer); isPtr {
		bp = bv
	} else if bp, ok = x.specAddr(e.Args[0], env); !ok {
		return nil, false
	}
	cur := bp.T.Underlying().(*types.Pointer).Elem()
	index := findFieldPath(cur, e.Name)
	if index == nil {
		return nil, false
	}
	path := append([]pathEl{}, bp.Path...)
	for _, k := range index {
		st, isStruct := cur.Underlying().(*types.Struct)
		if !isStruct {
			return nil, false
		}
		f := st.Field(k)
		pe := pathEl{Field: k, Name: f.Name(), T: f.Type(), ST: st}
		if len(path) == 0 {
			pe.rootT = cur
		}
		path = append(path, pe)
		cur = f.Type()
	}
	for _, pe := range path {
		if pe.IsIdx {
			return nil, false
		}
	}
	return &Val{T: types.NewPointer(cur), S: bp.S, Path: path}, true
}

// findFieldPath: the index path of field name in struct type t, looking through
// embedded struct values (not pointers), shallowest first.
func findFieldPath(t types.Type, name string) []int {
	type item struct {
		t    types.Type
		path []int
	}
	queue := []item{{t, nil}}
	for depth := 0; len(queue) > 0 && depth < 6; depth++ {
		var next []item
		for _, it := range queue {
			st, ok := it.t.Underlying().(*types.Struct)
			if !ok {
				continue
			}
			for k := 0; k < st.NumFields(); k++ {
				if st.Field(k).Name() == name {
					return append(append([]int{}, it.path...), k)
				}
			}
			for k := 0; k < st.NumFields(); k++ {
				if st.Field(k).Embedded() {
					next = append(next, item{st.Field(k).Type(), append(append([]int{}, it.path...), k)})
				}
			}
		}
		queue = next
	}
	return nil
}
