package main

import (
	"fmt"
	"go/constant"
	"go/types"
	"math"
	"math/big"
	"strings"
)

// Val is a symbolic Go value.
type Val struct {
	T    types.Type
	S    string  // SMT term (scalar, datatype or array sort)
	Tup  []*Val  // tuple components
	Path []pathEl // non-empty: pointer into a sub-object of the struct object S points to
	M    *memNode // spec values only: memory snapshot that reads through this value use (old(...))
	// bound variables of quantifiers are represented relative to an absolute
	// row index: S == (AbsIdx - AbsOff).  Indexing a slice whose offset term is
	// AbsOff then uses AbsIdx directly, which keeps solver triggers free of
	// arithmetic.
	AbsIdx, AbsOff string
}

type pathEl struct {
	Field int    // field index (when !IsIdx)
	Name  string // field name
	IsIdx bool
	Idx   string     // index term (Idx sort)
	T     types.Type // type of the selected component
	ST    *types.Struct
	rootT types.Type // first element only: the (named) struct type of the root object
}

func sanitize(s string) string {
	r := strings.NewReplacer("github.com/parquet-go/parquet-go", "pq", "/", ".", " ", "", "*", "ptr.", "[", "<", "]", ">", "(", "<", ")", ">", ",", "_", "{", "<", "}", ">", ";", "_", "\"", "")
	return r.Replace(s)
}

func (x *fx) idxSort() string {
	if x.mode == ModeBV {
		return "(_ BitVec 64)"
	}
	return "Int"
}

func isInt(t types.Type) (*types.Basic, bool) {
	b, ok := t.Underlying().(*types.Basic)
	if !ok {
		return nil, false
	}
	if b.Info()&types.IsInteger != 0 {
		return b, true
	}
	return nil, false
}

func isFloat(t types.Type) bool {
	b, ok := t.Underlying().(*types.Basic)
	return ok && b.Info()&types.IsFloat != 0
}

func isBool(t types.Type) bool {
	b, ok := t.Underlying().(*types.Basic)
	return ok && b.Info()&types.IsBoolean != 0
}

func isString(t types.Type) bool {
	b, ok := t.Underlying().(*types.Basic)
	return ok && b.Info()&types.IsString != 0
}

func intWidth(t types.Type) int {
	b := t.Underlying().(*types.Basic)
	switch b.Kind() {
	case types.Int8, types.Uint8:
		return 8
	case types.Int16, types.Uint16:
		return 16
	case types.Int32, types.Uint32:
		return 32
	}
	return 64
}

func intSigned(t types.Type) bool {
	b := t.Underlying().(*types.Basic)
	return b.Info()&types.IsUnsigned == 0
}

func pow2(n int) *big.Int { return new(big.Int).Lsh(big.NewInt(1), uint(n)) }

func intRange(t types.Type) (lo, hi *big.Int) {
	w := intWidth(t)
	if intSigned(t) {
		return new(big.Int).Neg(pow2(w - 1)), new(big.Int).Sub(pow2(w-1), big.NewInt(1))
	}
	return big.NewInt(0), new(big.Int).Sub(pow2(w), big.NewInt(1))
}

func smtInt(v *big.Int) string {
	if v.Sign() < 0 {
		return "(- " + new(big.Int).Neg(v).String() + ")"
	}
	return v.String()
}

func smtBV(v *big.Int, w int) string {
	m := new(big.Int).Mod(v, pow2(w))
	return fmt.Sprintf("(_ bv%s %d)", m.String(), w)
}

// intConst returns the term for the integer constant v of Go type t.
func (x *fx) intConst(v *big.Int, t types.Type) string {
	if x.mode == ModeBV {
		return smtBV(v, intWidth(t))
	}
	return smtInt(v)
}

func (x *fx) idxConst(n int64) string {
	if x.mode == ModeBV {
		return smtBV(big.NewInt(n), 64)
	}
	return smtInt(big.NewInt(n))
}

var tInt = types.Typ[types.Int]
var tBool = types.Typ[types.Bool]
var tByte = types.Typ[types.Uint8]

// sortOf maps a Go type to its SMT sort, declaring datatypes on demand.
func (x *fx) sortOf(t types.Type) string {
	switch u := t.Underlying().(type) {
	case *types.Basic:
		switch {
		case u.Info()&types.IsInteger != 0:
			if x.mode == ModeBV {
				return fmt.Sprintf("(_ BitVec %d)", intWidth(u))
			}
			return "Int"
		case u.Info()&types.IsBoolean != 0:
			return "Bool"
		case u.Kind() == types.Float32:
			return "(_ FloatingPoint 8 24)"
		case u.Kind() == types.Float64 || u.Kind() == types.UntypedFloat:
			return "(_ FloatingPoint 11 53)"
		case u.Info()&types.IsString != 0:
			return "Slice"
		case u.Kind() == types.UnsafePointer:
			return "Ptr"
		case u.Kind() == types.UntypedNil:
			return "Ptr"
		}
	case *types.Slice:
		return "Slice"
	case *types.Pointer:
		return "Ptr"
	case *types.Interface:
		return "Iface"
	case *types.Signature:
		return "Int"
	case *types.Map, *types.Chan:
		return "Int"
	case *types.Array:
		return "(Array " + x.idxSort() + " " + x.sortOf(u.Elem()) + ")"
	case *types.Struct:
		name := "S." + sanitize(types.TypeString(t, nil))
		if _, isNamed := t.(*types.Named); !isNamed {
			if _, isAlias := t.(*types.Alias); !isAlias {
				name = "S.anon." + sanitize(types.TypeString(t, nil))
			}
		}
		name = "|" + name + "|"
		if !x.sortSeen[name] {
			x.sortSeen[name] = true
			var fs []string
			for i := 0; i < u.NumFields(); i++ {
				fs = append(fs, fmt.Sprintf("(%s %s)", x.selName(name, u.Field(i).Name(), i), x.sortOf(u.Field(i).Type())))
			}
			x.sorts = append(x.sorts, fmt.Sprintf("(declare-datatypes ((%s 0)) (((%s %s))))", name, x.ctorName(name), strings.Join(fs, " ")))
		}
		return name
	case *types.Tuple:
		panic("tuple has no sort")
	}
	panic(unsupported(fmt.Sprintf("sort of type %s", t)))
}

func (x *fx) ctorName(sortName string) string {
	return "|mk." + strings.Trim(sortName, "|") + "|"
}

func (x *fx) selName(sortName, field string, i int) string {
	if field == "_" {
		field = fmt.Sprintf("_%d", i)
	}
	return "|" + strings.Trim(sortName, "|") + "." + field + "|"
}

type unsupported string

func (u unsupported) Error() string { return string(u) }

// zero returns the zero value term of type t.
func (x *fx) zero(t types.Type) string {
	switch u := t.Underlying().(type) {
	case *types.Basic:
		switch {
		case u.Info()&types.IsInteger != 0:
			return x.intConst(big.NewInt(0), u)
		case u.Info()&types.IsBoolean != 0:
			return "false"
		case u.Kind() == types.Float32:
			return "(_ +zero 8 24)"
		case u.Kind() == types.Float64:
			return "(_ +zero 11 53)"
		case u.Info()&types.IsString != 0:
			return x.nilSlice()
		case u.Kind() == types.UnsafePointer, u.Kind() == types.UntypedNil:
			return x.nilPtr()
		}
	case *types.Slice:
		return x.nilSlice()
	case *types.Pointer:
		return x.nilPtr()
	case *types.Interface:
		return "(mk-iface 0 0)"
	case *types.Signature, *types.Map, *types.Chan:
		return "0"
	case *types.Array:
		return fmt.Sprintf("((as const %s) %s)", x.sortOf(t), x.zero(u.Elem()))
	case *types.Struct:
		s := x.sortOf(t)
		if u.NumFields() == 0 {
			return x.ctorName(s)
		}
		var fs []string
		for i := 0; i < u.NumFields(); i++ {
			fs = append(fs, x.zero(u.Field(i).Type()))
		}
		return "(" + x.ctorName(s) + " " + strings.Join(fs, " ") + ")"
	}
	panic(unsupported(fmt.Sprintf("zero of type %s", t)))
}

func (x *fx) nilSlice() string {
	z := x.idxConst(0)
	return fmt.Sprintf("(mk-slice 0 %s %s %s)", z, z, z)
}
func (x *fx) nilPtr() string { return "(mk-ptr 0 " + x.idxConst(0) + ")" }

// ---- integer arithmetic -------------------------------------------------

func (x *fx) wrapInt(term string, t types.Type) string {
	// int mode only: reduce a mathematical integer into t's range (two's complement wrap)
	w := intWidth(t)
	m := pow2(w).String()
	if !intSigned(t) {
		return fmt.Sprintf("(mod %s %s)", term, m)
	}
	h := pow2(w - 1).String()
	return fmt.Sprintf("(- (mod (+ %s %s) %s) %s)", term, h, m, h)
}

func (x *fx) inRange(term string, t types.Type) string {
	if x.mode == ModeBV {
		return "true"
	}
	lo, hi := intRange(t)
	return fmt.Sprintf("(and (<= %s %s) (<= %s %s))", smtInt(lo), term, term, smtInt(hi))
}

// toIdx converts an integer value to the index sort (Go int).
func (x *fx) toIdx(v *Val) string {
	return x.convertInt(v.S, v.T, tInt)
}

// convertInt converts between integer types with Go semantics.
func (x *fx) convertInt(term string, from, to types.Type) string {
	fw, tw := intWidth(from), intWidth(to)
	fs, ts := intSigned(from), intSigned(to)
	if x.mode == ModeBV {
		switch {
		case fw == tw:
			return term
		case fw > tw:
			return fmt.Sprintf("((_ extract %d 0) %s)", tw-1, term)
		case fs:
			return fmt.Sprintf("((_ sign_extend %d) %s)", tw-fw, term)
		default:
			return fmt.Sprintf("((_ zero_extend %d) %s)", tw-fw, term)
		}
	}
	// int mode: value is a mathematical integer within from's range
	flo, fhi := intRange(from)
	tlo, thi := intRange(to)
	if flo.Cmp(tlo) >= 0 && fhi.Cmp(thi) <= 0 {
		return term
	}
	_ = ts
	return x.wrapInt(term, to)
}

func (x *fx) floatConst(f float64, t types.Type) string {
	if t.Underlying().(*types.Basic).Kind() == types.Float32 {
		b := math.Float32bits(float32(f))
		return fmt.Sprintf("((_ to_fp 8 24) #x%08x)", b)
	}
	b := math.Float64bits(f)
	return fmt.Sprintf("((_ to_fp 11 53) #x%016x)", b)
}

func (x *fx) constVal(c constant.Value, t types.Type) *Val {
	if c == nil {
		// nil / zero value
		return &Val{T: t, S: x.zero(t)}
	}
	switch {
	case isBool(t):
		if constant.BoolVal(c) {
			return &Val{T: t, S: "true"}
		}
		return &Val{T: t, S: "false"}
	case isFloat(t):
		f, _ := constant.Float64Val(constant.ToFloat(c))
		return &Val{T: t, S: x.floatConst(f, t)}
	case isString(t):
		return x.stringConst(constant.StringVal(c), t)
	}
	if _, ok := isInt(t); ok {
		bi, ok := new(big.Int).SetString(constant.ToInt(c).ExactString(), 10)
		if !ok {
			panic(unsupported("integer constant " + c.ExactString()))
		}
		if x.mode == ModeInt {
			lo, hi := intRange(t)
			if bi.Cmp(lo) < 0 || bi.Cmp(hi) > 0 {
				// constant conversion wraps (e.g. uint64 constant typed via conversion)
				w := intWidth(t)
				bi.Mod(bi, pow2(w))
				if intSigned(t) && bi.Cmp(hi) > 0 {
					bi.Sub(bi, pow2(w))
				}
			}
		}
		return &Val{T: t, S: x.intConst(bi, t)}
	}
	panic(unsupported(fmt.Sprintf("constant %s of type %s", c, t)))
}

func (x *fx) stringConst(s string, t types.Type) *Val {
	id, ok := x.g.strIDs[s]
	if !ok {
		id = len(x.g.strIDs) + 1
		x.g.strIDs[s] = id
	}
	// string constants live at negative refs, never equal to heap refs
	n := x.idxConst(int64(len(s)))
	return &Val{T: t, S: fmt.Sprintf("(mk-slice (- %d) %s %s %s)", id, x.idxConst(0), n, n)}
}
