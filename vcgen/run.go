package main

import (
	"sort"
	"fmt"
	"os"
	"go/token"
	"go/types"
	"strings"

	"golang.org/x/tools/go/ssa"
)

// specEnv is the environment in which contract expressions are evaluated.
type specEnv struct {
	look  func(name string) *Val
	mem   *memNode
	old   *specEnv
	bound map[string]*Val
	pkg   *types.Package
	top   string
	// callSite: the environment evaluates a CALLEE's postcondition at one of its call
	// sites (old = the state before the call)
	callSite bool
}

func (e *specEnv) withBound(name string, v *Val) *specEnv {
	n := *e
	n.bound = map[string]*Val{}
	for k, v := range e.bound {
		n.bound[k] = v
	}
	n.bound[name] = v
	if e.old != nil && e.old != e {
		o := *e.old
		o.bound = n.bound
		n.old = &o
	}
	return &n
}

func (x *fx) paramEnv(mem *memNode) *specEnv {
	env := &specEnv{mem: mem, pkg: x.fn.Pkg.Pkg, top: x.top0}
	env.look = func(name string) *Val {
		for _, p := range x.fn.Params {
			if p.Name() == name {
				return x.vals[p]
			}
		}
		for _, p := range x.fn.FreeVars {
			if p.Name() == name {
				return x.vals[p]
			}
		}
		if v, ok := x.ghosts[name]; ok {
			return v
		}
		return nil
	}
	env.old = env
	return env
}

// execute runs the symbolic execution of the whole function, collecting
// assumptions (steps) and obligations.
func (x *fx) execute(loopWrites map[int]*loopInfo) {
	fn := x.fn
	if fn.Pkg == nil && fn.Origin() != nil {
		// instantiated generic: use origin's package for name resolution
	}
	x.analyzeLoops()
	if loopWrites != nil {
		for h, li := range x.loops {
			if o := loopWrites[h]; o != nil {
				li.writes, li.havocAll = o.writes, o.havocAll
			}
		}
	}
	x.computeNames()

	// entry state
	x.entryMem = x.newMem("entry", nil)
	x.curMem = x.entryMem
	x.top0 = x.resolve(x.entryMem, "$top")
	x.assume("(> " + x.top0 + " 3000000)")
	x.curPC = "true"
	var sliceParams []*Val
	bind := func(v ssa.Value, name string) {
		t := v.Type()
		n := "|" + name + "|"
		if x.declSeen[n] {
			n = "|" + name + "~p|"
		}
		x.declare(n, x.sortOf(t))
		r := &Val{T: t, S: n}
		x.vals[v] = r
		x.assume(x.valid(n, t, x.top0))
		if _, ok := t.Underlying().(*types.Slice); ok {
			sliceParams = append(sliceParams, r)
		}
		if _, ok := t.Underlying().(*types.Pointer); ok {
			sliceParams = append(sliceParams, r)
		}
	}
	for i, p := range fn.Params {
		name := p.Name()
		if name == "" || name == "_" {
			name = fmt.Sprintf("param%d", i)
		}
		bind(p, name)
		if i == 0 && fn.Signature.Recv() != nil {
			if _, ok := p.Type().Underlying().(*types.Pointer); ok {
				x.assume("(> (p-ref " + x.vals[p].S + ") 0)")
				x.assumptions["method receivers are non-nil"] = true
			}
		}
	}
	for _, p := range fn.FreeVars {
		bind(p, p.Name())
		if _, ok := p.Type().Underlying().(*types.Pointer); ok {
			x.assume("(> (p-ref " + x.vals[p].S + ") 0)")
			// the cell of a captured local variable is never the cell of a
			// package-level variable (those have the references 1000000..1999999)
			// (int mode only: the bit-vector queries are the slow ones, and no contract
			// in that mode compares a captured variable with a package-level one)
			if x.mode != ModeBV {
				x.assume("(or (< (p-ref " + x.vals[p].S + ") 1000000) (>= (p-ref " + x.vals[p].S + ") 2000000))")
			}
		}
	}
	if !x.c.MayAlias && len(sliceParams) > 1 {
		// distinct slice/pointer parameters do not overlap (unless may_alias)
		for i := 0; i < len(sliceParams); i++ {
			for j := i + 1; j < len(sliceParams); j++ {
				a, b := sliceParams[i], sliceParams[j]
				if x.memKey(a.T) != x.memKey(b.T) {
					continue
				}
				ra, rb := x.refOf(a), x.refOf(b)
				x.assume(fmt.Sprintf("(or (= %s 0) (= %s 0) (not (= %s %s)))", ra, rb, ra, rb))
				x.assumptions["distinct slice/pointer parameters of the same element type do not alias (no may_alias)"] = true
			}
		}
	}
	// ghost parameters: universally quantified specification-only values
	for _, gp := range x.c.Ghosts {
		t := x.parseTypeString(gp.Type, fn.Pkg.Pkg)
		n := "|ghost." + gp.Name + "|"
		x.declare(n, x.sortOf(t))
		x.assume(x.valid(n, t, x.top0))
		x.ghosts[gp.Name] = &Val{T: t, S: n}
	}
	// fnspecs
	for pname, spec := range x.c.FnSpecs {
		x.assumeFnSpec(pname, spec)
	}
	env0 := x.paramEnv(x.entryMem)
	// definitional axioms (assumed, not owed by callers)
	for _, cl := range x.c.Axiomatize {
		x.assume(x.evalBool(cl.E, env0))
		x.assumptions["definitional axiom assumed in "+x.c.Name+": "+cl.Src] = true
	}
	// requires
	for _, cl := range x.c.Requires {
		v := x.evalBool(cl.E, env0)
		x.assume(v)
	}
	// modifies regions (evaluated at entry)
	for _, cl := range x.c.Modifies {
		x.regions = append(x.regions, x.regionsOf(cl.E, env0)...)
	}
	// vacuity: the precondition must be satisfiable
	x.obs = append(x.obs, &Oblig{Fn: x.c.Pkg + "." + x.c.Name, Name: x.pkgShort() + "." + x.cname() + "#vacuity:requires", Kind: "canary", PC: "true", Goal: "false", NSteps: len(x.steps), Expect: "sat", Desc: "requires is satisfiable", fx: x})

	order := x.topoOrder()
	edgePC := map[[2]int]string{}
	skipTail := map[int]bool{}
	for _, b := range order {
		x.curBlock = b
		// incoming forward edges
		type inEdge struct {
			from *ssa.BasicBlock
			pc   string
			idx  int
		}
		var ins []inEdge
		for pi, p := range b.Preds {
			if x.isBackEdge(p, b) {
				continue
			}
			pc, ok := edgePC[[2]int{p.Index, b.Index}]
			if !ok {
				continue // predecessor unreachable
			}
			ins = append(ins, inEdge{p, pc, pi})
		}
		// Exit tail: a chain of single-successor blocks ending in a Return whose
		// first block has several predecessors (the common exit of a function
		// with deferred calls and result cells).  It is executed once per
		// incoming edge instead of merging the memories of all return paths.
		if skipTail[b.Index] {
			continue
		}
		if b.Index != 0 && len(ins) > 1 && x.loops[b.Index] == nil {
			if chain := x.exitChain(b); chain != nil {
				for _, e := range ins {
					x.curPC = e.pc
					x.curMem = x.blockMem[e.from.Index]
					for ci, cb := range chain {
						x.curBlock = cb
						for _, in := range cb.Instrs {
							if phi, ok := in.(*ssa.Phi); ok {
								if ci == 0 {
									x.vals[phi] = x.valOf(phi.Edges[e.idx])
								} else {
									x.vals[phi] = x.valOf(phi.Edges[0])
								}
								continue
							}
							x.instr(in)
						}
					}
				}
				for _, cb := range chain {
					skipTail[cb.Index] = true
					x.blockPC[cb.Index] = x.curPC
					x.blockMem[cb.Index] = x.curMem
				}
				continue
			}
		}
		if b.Index == 0 {
			x.curPC = "true"
			x.curMem = x.entryMem
		} else {
			if len(ins) == 0 {
				continue
			}
			var pcs []string
			var merges []mergeEdge
			for _, e := range ins {
				pcs = append(pcs, e.pc)
				merges = append(merges, mergeEdge{e.pc, x.blockMem[e.from.Index]})
			}
			pcName := fmt.Sprintf("|pc.%d|", b.Index)
			x.declare(pcName, "Bool")
			x.assume("(= " + pcName + " " + x.or(pcs...) + ")")
			x.curPC = pcName
			if len(merges) == 1 {
				x.curMem = merges[0].m
			} else {
				m := x.newMem("merge", nil)
				m.preds = merges
				x.curMem = m
			}
		}
		li := x.loops[b.Index]
		// phis
		phiEntry := map[*ssa.Phi]*Val{}
		for _, in := range b.Instrs {
			phi, ok := in.(*ssa.Phi)
			if !ok {
				break
			}
			var v *Val
			for k := len(ins) - 1; k >= 0; k-- {
				e := ins[k]
				ev := x.valOf(phi.Edges[e.idx])
				if v == nil {
					v = ev
				} else {
					v = x.iteVal(e.pc, ev, v)
				}
			}
			phiEntry[phi] = v
		}
		if li == nil {
			for phi, v := range phiEntry {
				x.defVal(phi, v)
			}
		} else {
			x.loopHeader(li, phiEntry)
		}
		// instructions
		for _, in := range b.Instrs {
			if _, ok := in.(*ssa.Phi); ok {
				continue
			}
			x.instr(in)
		}
		x.blockPC[b.Index] = x.curPC
		x.blockMem[b.Index] = x.curMem
		// terminator
		if len(b.Instrs) > 0 {
			switch t := b.Instrs[len(b.Instrs)-1].(type) {
			case *ssa.If:
				c := x.valOf(t.Cond).S
				if b.Succs[0] == b.Succs[1] {
					edgePC[[2]int{b.Index, b.Succs[0].Index}] = x.curPC
				} else {
					edgePC[[2]int{b.Index, b.Succs[0].Index}] = x.and(x.curPC, c)
					edgePC[[2]int{b.Index, b.Succs[1].Index}] = x.and(x.curPC, not(c))
				}
			case *ssa.Jump:
				edgePC[[2]int{b.Index, b.Succs[0].Index}] = x.curPC
			}
		}
		// back edges
		for _, s := range b.Succs {
			if x.isBackEdge(b, s) {
				x.backEdge(x.loops[s.Index], b, edgePC[[2]int{b.Index, s.Index}])
			}
		}
		// loop exits (assert exit=N)
		for _, s := range b.Succs {
			for _, li := range x.loopList {
				if li.body[b.Index] && !li.body[s.Index] && s == loopDone(li) {
					x.exitEdge(li, b, edgePC[[2]int{b.Index, s.Index}])
				}
			}
		}
	}
	x.curBlock = nil
	// collect loop write sets for the second pass
	for _, li := range x.loopList {
		li.writes = map[string]bool{}
		for bi := range li.body {
			for n := range x.written[bi] {
				li.writes[n] = true
			}
			if x.havocAllIn[bi] {
				li.havocAll = true
			}
		}
	}
}

func (x *fx) memKey(t types.Type) string {
	switch u := t.Underlying().(type) {
	case *types.Slice:
		return types.TypeString(u.Elem().Underlying(), nil)
	case *types.Pointer:
		return types.TypeString(u.Elem().Underlying(), nil)
	}
	return ""
}

func (x *fx) refOf(v *Val) string {
	if _, ok := v.T.Underlying().(*types.Slice); ok {
		return slBase(v.S)
	}
	if b, ok := v.T.Underlying().(*types.Basic); ok && b.Info()&types.IsString != 0 {
		return slBase(v.S) // strings are byte views with a storage of their own
	}
	return ptrRef(v.S)
}

func (x *fx) iteVal(c string, a, b *Val) *Val {
	if a.Tup != nil {
		r := &Val{T: a.T}
		for i := range a.Tup {
			r.Tup = append(r.Tup, x.iteVal(c, a.Tup[i], b.Tup[i]))
		}
		return r
	}
	if len(a.Path) > 0 || len(b.Path) > 0 {
		panic(unsupported("phi of interior pointers"))
	}
	if a.S == b.S {
		return a
	}
	return &Val{T: a.T, S: fmt.Sprintf("(ite %s %s %s)", c, a.S, b.S)}
}

// loopEnv builds the spec environment at a loop header: header phis by their
// source name, then reaching definitions, then parameters.
func (x *fx) loopEnv(li *loopInfo, phiVals map[*ssa.Phi]*Val, mem *memNode) *specEnv {
	env := &specEnv{mem: mem, pkg: x.fn.Pkg.Pkg, top: x.top0}
	byName := map[string]*Val{}
	for phi, v := range phiVals {
		if phi.Comment != "" {
			byName[phi.Comment] = v
		}
		byName[phi.Name()] = v
	}
	// a source variable that DebugRefs bind to a header phi (e.g. the variable of
	// `for i := range n`, whose phi is commented rangeint.iter)
	for bi := range li.body {
		for _, in := range x.fn.Blocks[bi].Instrs {
			if d, ok := in.(*ssa.DebugRef); ok && !d.IsAddr {
				if phi, ok := d.X.(*ssa.Phi); ok && phi.Block() == li.header {
					if obj := d.Object(); obj != nil {
						if _, dup := byName[obj.Name()]; !dup {
							if v, ok := phiVals[phi]; ok {
								byName[obj.Name()] = v
							}
						}
					}
				}
			}
		}
	}
	env.look = func(name string) *Val {
		if v, ok := byName[name]; ok {
			return v
		}
		if sv, ok := x.nameIn[li.header.Index][name]; ok {
			if _, isPhi := sv.(*ssa.Phi); isPhi && sv.(*ssa.Phi).Block() == li.header {
				// handled above
			} else if v, ok := x.lookupVal(sv); ok {
				return v
			}
		}
		// SSA register names (t12) are accepted too
		for _, b := range x.fn.Blocks {
			for _, in := range b.Instrs {
				if v, ok := in.(ssa.Value); ok && v.Name() == name {
					if r, ok := x.vals[v]; ok {
						return r
					}
				}
			}
		}
		return x.paramEnv(mem).look(name)
	}
	env.old = x.paramEnv(x.entryMem)
	return env
}

// allocNamed: the cell of the source variable `name` when the variable lives in
// memory (captured by a closure, or address-taken) and no single SSA value stands
// for it at this point (different loads of it reach the point along different
// edges).  The result is the POINTER to the cell: write deref(name) to read it.
func (x *fx) allocNamed(name string) *Val {
	var found *ssa.Alloc
	for _, b := range x.fn.Blocks {
		for _, in := range b.Instrs {
			if a, ok := in.(*ssa.Alloc); ok && a.Comment == name {
				if found != nil {
					return nil
				}
				found = a
			}
		}
	}
	if found == nil {
		return nil
	}
	if v, ok := x.vals[found]; ok {
		return v
	}
	return nil
}

func (x *fx) lookupVal(v ssa.Value) (r *Val, ok bool) {
	defer func() {
		if e := recover(); e != nil {
			ok = false
		}
	}()
	return x.valOf(v), true
}

func (x *fx) clausesFor(cls []*Clause, loop int) []*Clause {
	var out []*Clause
	for _, c := range cls {
		if c.Loop == loop {
			out = append(out, c)
		}
	}
	return out
}

func clauseLabel(c *Clause, i int) string {
	if c.Label != "" {
		return c.Label
	}
	return fmt.Sprint(i + 1)
}

func (x *fx) loopHeader(li *loopInfo, phiEntry map[*ssa.Phi]*Val) {
	invs := x.clausesFor(x.c.Invariants, li.ordinal)
	// 1. invariants hold on entry
	envE := x.loopEnv(li, phiEntry, x.curMem)
	for i, cl := range invs {
		g := x.evalBool(cl.E, envE)
		if o := x.oblige("inv", fmt.Sprintf("loop%d:entry:%s", li.ordinal, clauseLabel(cl, i)), g, "loop invariant holds on entry: "+cl.Src); o != nil {
			o.Src, o.Line = cl.Src, cl.Line
		}
	}
	// 2. havoc
	tag := fmt.Sprintf("L%d", li.ordinal)
	h := x.newMem("havoc", x.curMem)
	h.tag = tag
	if x.pass == 1 || li.havocAll {
		h.set = nil
	} else {
		h.set = map[string]bool{"$top": true}
		for n := range li.writes {
			h.set[n] = true
		}
	}
	pre := x.curMem
	baseFrame := x.frameVsEntry(pre)
	// locals of this activation that the loop body never stores to keep their
	// contents across the loop (unmodelled callees cannot reach them)
	storedInLoop := map[*ssa.Alloc]bool{}            // stored to as a whole (or in a way not tracked per field)
	storedFields := map[*ssa.Alloc]map[string]bool{} // struct locals: field memories the loop stores to
	for bi := range li.body {
		for _, in := range x.fn.Blocks[bi].Instrs {
			if st, ok := in.(*ssa.Store); ok {
				a := rootAlloc(st.Addr)
				if a == nil {
					continue
				}
				if fm := x.rootFieldMem(st.Addr, a); fm != "" {
					if storedFields[a] == nil {
						storedFields[a] = map[string]bool{}
					}
					storedFields[a][fm] = true
				} else {
					storedInLoop[a] = true
				}
			}
		}
	}
	type keptLocal struct {
		ref    string
		fields map[string]bool
	}
	var keptLocals []keptLocal
	for _, r := range x.localRefs {
		if a := x.localAlloc[r]; a != nil && !storedInLoop[a] {
			keptLocals = append(keptLocals, keptLocal{r, storedFields[a]})
		}
	}
	x.initKeepAll()
	keepRegs := x.keepAllRegs
	untouchedCells := map[string]bool{} // (p-ref |fv|) of the free variables the loop does not store through
	for _, fv := range x.fn.FreeVars {
		if _, ok := fv.Type().Underlying().(*types.Pointer); !ok {
			continue
		}
		touched := false
		for bi := range li.body {
			for _, in := range x.fn.Blocks[bi].Instrs {
				if st, ok := in.(*ssa.Store); ok && rootValue(st.Addr) == ssa.Value(fv) {
					touched = true
				}
			}
		}
		if v, ok := x.vals[fv]; ok && !touched {
			untouchedCells[ptrRef(v.S)] = true
		}
	}
	h.frame = func(n, nv, ov string) {
		baseFrame(n, nv, ov)
		// a memory the loop body never stores to directly can only be changed by
		// the unmodelled callees inside the loop: the keepsall assumption applies
		if !li.writes[n] {
			for _, r := range keepRegs {
				if r.mem == n {
					x.assume(x.keepRegion(r, nv, ov))
				}
			}
		} else {
			// the cell of a captured variable (a free variable of this closure) is
			// not aliased by any other pointer of this function: when the loop has no
			// store through the free variable itself, only its unmodelled callees could
			// change the cell, and the keepsall assumption applies as above
			for _, r := range keepRegs {
				if r.mem == n && untouchedCells[r.ref] {
					x.assume(x.keepRegion(r, nv, ov))
				}
			}
		}
		if !strings.HasPrefix(n, "$") {
			for _, k := range keptLocals {
				if k.fields[n] {
					continue
				}
				x.assume(fmt.Sprintf("(= (select %s %s) (select %s %s))", nv, k.ref, ov, k.ref))
			}
		}
	}
	x.curMem = h
	phiNow := map[*ssa.Phi]*Val{}
	for _, in := range li.header.Instrs {
		phi, ok := in.(*ssa.Phi)
		if !ok {
			break
		}
		v := x.havocVal(phi.Name(), phi.Type())
		x.vals[phi] = v
		phiNow[phi] = v
		// base-preserving slices: the phi is only ever re-sliced inside the loop
		if _, ok := phi.Type().Underlying().(*types.Slice); ok && x.basePreserved(li, phi) {
			if ev := phiEntry[phi]; ev != nil {
				x.assume(fmt.Sprintf("(= (s-base %s) (s-base %s))", v.S, ev.S))
			}
		}
	}
	// 3. assume invariants
	envH := x.loopEnv(li, phiNow, x.curMem)
	for _, cl := range invs {
		x.assumeAt(x.curPC, x.evalBool(cl.E, envH))
	}
	for _, cl := range x.clausesFor(x.c.Decreases, li.ordinal) {
		m := x.eval(cl.E, envH)
		x.measures[li.header.Index] = append(x.measures[li.header.Index], x.toMath(m))
	}
	for _, cl := range x.c.Asserts {
		if cl.Kind == "assert:back$" && cl.Loop == li.ordinal {
			var walk func(e *Expr)
			walk = func(e *Expr) {
				if e == nil {
					return
				}
				if e.Op == "athead" {
					if x.atHead == nil {
						x.atHead = map[*Expr]*Val{}
					}
					x.atHead[e] = x.eval(e.Args[0], envH)
					return
				}
				for _, a := range e.Args {
					walk(a)
				}
			}
			walk(cl.E)
		}
	}
	if len(invs) == 0 {
		x.warnings = append(x.warnings, fmt.Sprintf("loop %d has no invariant (everything it assigns is havocked)", li.ordinal))
	}
}

// basePreserved: every back-edge value of the slice phi is derived from the
// phi itself by re-slicing only.
func (x *fx) basePreserved(li *loopInfo, phi *ssa.Phi) bool {
	seen := map[ssa.Value]bool{}
	var derived func(v ssa.Value) bool
	derived = func(v ssa.Value) bool {
		if v == phi {
			return true
		}
		if seen[v] {
			return true
		}
		seen[v] = true
		switch i := v.(type) {
		case *ssa.Slice:
			return derived(i.X)
		case *ssa.Phi:
			for _, e := range i.Edges {
				if !derived(e) {
					return false
				}
			}
			return true
		}
		return false
	}
	for pi, p := range li.header.Preds {
		if x.isBackEdge(p, li.header) {
			if !derived(phi.Edges[pi]) {
				return false
			}
		}
	}
	return true
}

// loopDone: the block the loop's own condition exits to (the successor of the header
// outside the loop), nil for a loop without a condition.
func loopDone(li *loopInfo) *ssa.BasicBlock {
	for _, s := range li.header.Succs {
		if !li.body[s.Index] {
			return s
		}
	}
	return nil
}

// exitEdge: assert exit=N clauses, on an edge from a block of loop N to the block the
// loop's condition exits to; the locals are named as at the end of the block left.
func (x *fx) exitEdge(li *loopInfo, from *ssa.BasicBlock, pc string) {
	if pc == "" || len(from.Instrs) == 0 {
		return
	}
	savePC := x.curPC
	x.curPC = pc
	if x.exitCount == nil {
		x.exitCount = map[int]int{}
	}
	x.exitCount[li.ordinal]++
	for k, cl := range x.c.Asserts {
		if cl.Kind != "assert:exit$" || cl.Loop != li.ordinal {
			continue
		}
		if x.assertSeen == nil {
			x.assertSeen = map[int]bool{}
		}
		x.assertSeen[k] = true
		env := x.instrEnv(from.Instrs[len(from.Instrs)-1])
		g := x.evalBool(cl.E, env)
		if o := x.oblige("assert", fmt.Sprintf("exit#%d:%s:e%d", li.ordinal, clauseLabel(cl, k), x.exitCount[li.ordinal]), g, fmt.Sprintf("assertion where loop %d is left: %s", li.ordinal, cl.Src)); o != nil {
			o.Src, o.Line = cl.Src, cl.Line
		}
	}
	x.curPC = savePC
}

func (x *fx) backEdge(li *loopInfo, from *ssa.BasicBlock, pc string) {
	if pc == "" {
		return
	}
	// phi values along this edge
	pidx := -1
	for i, p := range li.header.Preds {
		if p == from {
			pidx = i
		}
	}
	phiVals := map[*ssa.Phi]*Val{}
	for _, in := range li.header.Instrs {
		phi, ok := in.(*ssa.Phi)
		if !ok {
			break
		}
		phiVals[phi] = x.valOf(phi.Edges[pidx])
	}
	savePC := x.curPC
	x.curPC = pc
	env := x.loopEnv(li, phiVals, x.curMem)
	suffix := ""
	if len(li.backs) > 1 {
		for i, b := range li.backs {
			if b == from {
				suffix = fmt.Sprintf(":e%d", i+1)
			}
		}
	}
	for i, cl := range x.clausesFor(x.c.Invariants, li.ordinal) {
		g := x.evalBool(cl.E, env)
		if o := x.oblige("inv", fmt.Sprintf("loop%d:back:%s%s", li.ordinal, clauseLabel(cl, i), suffix), g, "loop invariant preserved: "+cl.Src); o != nil {
			o.Src, o.Line = cl.Src, cl.Line
		}
	}
	// assert back=N: facts about the iteration that just ended (locals of the body are
	// named as at the end of the block the back edge leaves)
	for k, cl := range x.c.Asserts {
		if cl.Kind == "assert:back$" && cl.Loop == li.ordinal && len(from.Instrs) > 0 {
			if x.assertSeen == nil {
				x.assertSeen = map[int]bool{}
			}
			x.assertSeen[k] = true
			benv := x.instrEnv(from.Instrs[len(from.Instrs)-1])
			g := x.evalBool(cl.E, benv)
			if o := x.oblige("assert", fmt.Sprintf("back#%d:%s%s", li.ordinal, clauseLabel(cl, k), suffix), g, fmt.Sprintf("assertion at the end of an iteration of loop %d: %s", li.ordinal, cl.Src)); o != nil {
				o.Src, o.Line = cl.Src, cl.Line
			}
		}
	}
	for i, cl := range x.clausesFor(x.c.Decreases, li.ordinal) {
		m1 := x.toMath(x.eval(cl.E, env))
		m0 := x.measures[li.header.Index][i]
		var g string
		if x.mode == ModeBV {
			g = fmt.Sprintf("(and (bvslt %s %s) (bvsle (_ bv0 64) %s))", m1, m0, m0)
		} else {
			g = fmt.Sprintf("(and (< %s %s) (<= 0 %s))", m1, m0, m0)
		}
		if o := x.oblige("dec", fmt.Sprintf("loop%d%s", li.ordinal, suffix), g, "loop measure decreases and is bounded below: "+cl.Src); o != nil {
			o.Src, o.Line = cl.Src, cl.Line
		}
	}
	x.curPC = savePC
}

func (x *fx) toMath(v *Val) string { return v.S }

// frameVsEntry returns the frame function used when memory is havocked (loop
// headers, calls in abstracted mode): everything that existed at function
// entry and lies outside the function's modifies regions is unchanged since
// entry.  Sound because every store is checked against the regions.
func (x *fx) frameVsEntry(pre *memNode) func(name, newV, oldV string) {
	return func(name, newV, oldV string) {
		if name == "$top" {
			x.assume("(>= " + newV + " " + oldV + ")")
			return
		}
		if strings.HasPrefix(name, "$g.") {
			// ghost state is changed only through callee contracts that list it; an
			// unmodelled callee (abstracted mode) or a loop that calls none leaves it alone
			listed := false
			for _, r := range x.regions {
				if r.mem == name {
					listed = true
				}
			}
			if !listed || x.ghostHavocIsUnmodelled {
				x.assume("(= " + newV + " " + oldV + ")")
				if x.ghostHavocIsUnmodelled {
					x.assumptions["unmodelled callees (abstracted mode) do not change ghost state "+name] = true
				}
			}
			return
		}
		if x.c.ModAll {
			return
		}
		entryV := x.resolve(x.entryMem, name)
		x.assume(x.frameFormula(name, newV, entryV, x.regions, x.top0))
	}
}

// frameFormula: forall (r,i) outside regs and r < top: newV[r][i] == oldV[r][i]
func (x *fx) frameFormula(name, newV, oldV string, regs []region, top string) string {
	var mine []region
	for _, r := range regs {
		if r.mem == name {
			mine = append(mine, r)
		}
	}
	idx := x.idxSort()
	if len(mine) == 0 {
		return fmt.Sprintf("(forall ((q!r Int)) (! (=> (< q!r %s) (= (select %s q!r) (select %s q!r))) :pattern ((select %s q!r))))", top, newV, oldV, newV)
	}
	var neq []string
	for _, r := range mine {
		neq = append(neq, fmt.Sprintf("(not (= q!r %s))", r.ref))
	}
	f1 := fmt.Sprintf("(forall ((q!r Int)) (! (=> (and (< q!r %s) %s) (= (select %s q!r) (select %s q!r))) :pattern ((select %s q!r))))", top, strings.Join(neq, " "), newV, oldV, newV)
	var rows []string
	done := map[string]bool{}
	for _, r := range mine {
		if done[r.ref] {
			continue
		}
		done[r.ref] = true
		var outs []string
		for _, q := range mine {
			in := x.and(x.ile(q.lo, "q!i"), x.ilt("q!i", q.hi))
			if q.ref != r.ref {
				in = x.and("(= "+q.ref+" "+r.ref+")", in)
			}
			outs = append(outs, not(in))
		}
		rows = append(rows, fmt.Sprintf("(forall ((q!i %s)) (! (=> %s (= (select (select %s %s) q!i) (select (select %s %s) q!i))) :pattern ((select (select %s %s) q!i))))",
			idx, x.and(outs...), newV, r.ref, oldV, r.ref, newV, r.ref))
	}
	// every region names the same cell and narrows it to a nested component: the
	// components of that cell outside all of them are unchanged too
	narrow := true
	for _, r := range mine {
		if r.sub == nil || r.ref != mine[0].ref || r.lo != mine[0].lo {
			narrow = false
		}
	}
	if narrow {
		var paths [][]pathEl
		for _, r := range mine {
			paths = append(paths, r.sub)
		}
		nc := fmt.Sprintf("(select (select %s %s) %s)", newV, mine[0].ref, mine[0].lo)
		oc := fmt.Sprintf("(select (select %s %s) %s)", oldV, mine[0].ref, mine[0].lo)
		rows = append(rows, x.keepOutside(nc, oc, mine[0].subT, paths)...)
	}
	return x.and(append([]string{f1}, rows...)...)
}

// keepOutside: equalities between the components of struct values nv and ov (of
// type t) that lie outside every path in paths.
func (x *fx) keepOutside(nv, ov string, t types.Type, paths [][]pathEl) []string {
	for _, p := range paths {
		if len(p) == 0 {
			return nil // the whole value may change
		}
	}
	st, ok := t.Underlying().(*types.Struct)
	if !ok {
		return nil
	}
	s := x.sortOf(t)
	var out []string
	for i := 0; i < st.NumFields(); i++ {
		var tails [][]pathEl
		for _, p := range paths {
			if !p[0].IsIdx && p[0].Field == i {
				tails = append(tails, p[1:])
			}
		}
		sel := x.selName(s, st.Field(i).Name(), i)
		n, o := fmt.Sprintf("(%s %s)", sel, nv), fmt.Sprintf("(%s %s)", sel, ov)
		if len(tails) == 0 {
			out = append(out, "(= "+n+" "+o+")")
			continue
		}
		out = append(out, x.keepOutside(n, o, st.Field(i).Type(), tails)...)
	}
	return out
}

// checkFrameStore: a store must hit a modifies region or an object allocated
// by this activation.
func (x *fx) checkFrameStore(t types.Type, ref, off string, pe *pathEl, sub ...pathEl) {
	if x.c.ModAll || x.pass == 1 {
		return
	}
	if x.freshRefs[ref] {
		return
	}
	var names []string
	if pe != nil {
		names = []string{x.fieldMemNameOf(*pe)}
	} else if st, ok := structOf(t); ok {
		for i := 0; i < st.NumFields(); i++ {
			names = append(names, x.fieldMemName(t, st, i))
		}
	} else {
		names = []string{x.memName(t)}
	}
	for _, n := range names {
		var in []string
		in = append(in, "(>= "+ref+" "+x.top0+")")
		for _, r := range x.regions {
			if r.mem == n && (r.sub == nil || (pe != nil && subPrefix(r.sub, sub))) {
				in = append(in, x.and("(= "+ref+" "+r.ref+")", x.ile(r.lo, off), x.ilt(off, r.hi)))
			}
		}
		x.oblige("frame", "store", x.or(in...), "store to "+n+" stays inside the modifies clause")
	}
}

// ---------------------------------------------------------------------------

func (x *fx) instr(in ssa.Instruction) {
	x.curInstr = in
	switch i := in.(type) {
	case *ssa.DebugRef:
		return
	case *ssa.Alloc:
		x.alloc(i)
	case *ssa.UnOp:
		x.unop(i)
	case *ssa.BinOp:
		a, b := x.valOf(i.X), x.valOf(i.Y)
		x.defVal(i, x.binop(i.Op, a, b, i.Type(), true))
	case *ssa.Store:
		x.curMem = x.store(x.curMem, x.valOf(i.Addr), x.valOf(i.Val))
	case *ssa.IndexAddr:
		x.indexAddr(i)
	case *ssa.Index:
		x.index(i)
	case *ssa.FieldAddr:
		x.fieldAddr(i)
	case *ssa.Field:
		v := x.valOf(i.X)
		st := i.X.Type().Underlying().(*types.Struct)
		x.defVal(i, &Val{T: i.Type(), S: fmt.Sprintf("(%s %s)", x.selName(x.sortOf(i.X.Type()), st.Field(i.Field).Name(), i.Field), v.S)})
	case *ssa.Slice:
		x.slice(i)
	case *ssa.Call:
		x.call(i, i.Common())
	case *ssa.Extract:
		t := x.valOf(i.Tuple)
		x.vals[i] = t.Tup[i.Index]
	case *ssa.Convert:
		x.convert(i)
	case *ssa.ChangeType:
		v := x.valOf(i.X)
		x.vals[i] = &Val{T: i.Type(), S: v.S, Path: v.Path}
	case *ssa.ChangeInterface:
		v := x.valOf(i.X)
		x.vals[i] = &Val{T: i.Type(), S: v.S}
	case *ssa.MakeInterface:
		x.makeInterface(i)
	case *ssa.TypeAssert:
		x.typeAssert(i)
	case *ssa.MakeSlice:
		x.makeSlice(i)
	case *ssa.MakeClosure:
		x.closures[i] = i
		x.nfresh++
		x.vals[i] = &Val{T: i.Type(), S: fmt.Sprint(5000000 + x.nfresh)}
	case *ssa.MakeMap:
		x.vals[i] = x.havocVal(i.Name(), i.Type())
	case *ssa.MapUpdate:
		// maps are opaque: reads are always fresh
	case *ssa.Lookup:
		if _, ok := i.X.Type().Underlying().(*types.Map); ok {
			x.vals[i] = x.havocVal(i.Name(), i.Type())
			return
		}
		// string index
		s := x.valOf(i.X)
		idx := x.toIdx(x.valOf(i.Index))
		x.boundsCheck(idx, slLen(s.S), "string index")
		b := x.memRead(x.curMem, x.memName(tByte), slBase(s.S), x.iadd(slOff(s.S), idx))
		x.assume(x.inRange(b, tByte))
		x.defVal(i, &Val{T: i.Type(), S: b})
	case *ssa.SliceToArrayPointer:
		s := x.valOf(i.X)
		n := i.Type().Underlying().(*types.Pointer).Elem().Underlying().(*types.Array).Len()
		x.oblige("safe", "slice2array", x.ile(x.idxConst(n), slLen(s.S)), "slice to array pointer conversion: length suffices")
		x.defVal(i, &Val{T: i.Type(), S: fmt.Sprintf("(mk-ptr %s %s)", slBase(s.S), x.arrOff(slOff(s.S), i.X.Type().Underlying().(*types.Slice).Elem()))})
	case *ssa.If, *ssa.Jump:
		return
	case *ssa.Return:
		x.ret(i)
	case *ssa.Panic:
		x.oblige("safe", "panic", "false", "explicit panic is unreachable")
	case *ssa.RunDefers:
		x.runDefers()
	case *ssa.Defer:
		x.defers = append(x.defers, i)
	case *ssa.Range:
		x.vals[i] = &Val{T: i.Type(), S: "0"}
		x.needAbstract("range over map/string")
	case *ssa.Next:
		x.needAbstract("range over map/string")
		x.vals[i] = x.havocVal(i.Name(), i.Type())
	case *ssa.Go, *ssa.Send, *ssa.Select, *ssa.MakeChan:
		panic(unsupported(fmt.Sprintf("concurrency construct %T", in)))
	default:
		panic(unsupported(fmt.Sprintf("instruction %T", in)))
	}
}

func (x *fx) needAbstract(what string) {
	if !x.c.Abstract {
		panic(unsupported(what + " (function is not marked abstract)"))
	}
	x.abstracted[what] = true
}

func (x *fx) boundsCheck(idx, n, what string) {
	x.oblige("safe", "index", x.and(x.ile(x.idxConst(0), idx), x.ilt(idx, n)), what+" in bounds")
}

func (x *fx) alloc(i *ssa.Alloc) {
	t := i.Type().Underlying().(*types.Pointer).Elem()
	ref := x.newRef(i.Name())
	if os.Getenv("VCGEN_DEBUG_ALLOC") != "" && x.pass == 2 {
		cls, ok := capturedOnly(i)
		var kinds []string
		for _, r := range *i.Referrers() {
			kinds = append(kinds, fmt.Sprintf("%T", r))
		}
		fmt.Fprintf(os.Stderr, "alloc %s (%s) heap=%v capturedOnly=%v closures=%d immutable=%v refs=%v\n", i.Name(), i.Comment, i.Heap, ok, len(cls), ok && immutableCell(i, cls), uniqStr(kinds))
	}
	if !i.Heap {
		x.localRefs = append(x.localRefs, ref)
		x.localAlloc[ref] = i
	} else if cls, ok := capturedOnly(i); ok && immutableCell(i, cls) {
		// captured by closures but assigned exactly once (e.g. a parameter): no callee can change it
		x.localRefs = append(x.localRefs, ref)
		x.localAlloc[ref] = i
	} else if cls, ok := capturedOnly(i); ok {
		// a variable captured by closures of this function: only those closures
		// (or a callee they are handed to) can reach its cell
		x.cellRefs = append(x.cellRefs, cellRef{ref: ref, closures: cls})
	}
	if i.Heap {
		x.heapAllocs = append(x.heapAllocs, heapAlloc{ref: ref, escapes: escapingUses(i)})
	}
	x.vals[i] = &Val{T: i.Type(), S: fmt.Sprintf("(mk-ptr %s %s)", ref, x.idxConst(0))}
	x.zeroInit(t, ref)
}

// heapAlloc: an allocation of this activation and the instructions at which a
// pointer to it (or into it) leaves the function's hands: until one of them has
// possibly executed, no callee can reach the object.
type heapAlloc struct {
	ref     string
	escapes []ssa.Instruction
}

func escapingUses(a *ssa.Alloc) []ssa.Instruction {
	var out []ssa.Instruction
	seen := map[ssa.Value]bool{}
	var walk func(v ssa.Value)
	walk = func(v ssa.Value) {
		if seen[v] {
			return
		}
		seen[v] = true
		refs := v.Referrers()
		if refs == nil {
			return
		}
		for _, r := range *refs {
			switch r := r.(type) {
			case *ssa.DebugRef:
			case *ssa.Store:
				if r.Val == v {
					out = append(out, r)
				}
			case *ssa.FieldAddr:
				walk(r)
			case *ssa.IndexAddr:
				walk(r)
			case *ssa.UnOp:
				// a load through the pointer does not leak the pointer
				if r.Op != token.MUL {
					out = append(out, r)
				}
			default:
				out = append(out, r)
			}
		}
	}
	walk(a)
	return out
}

// notYetEscaped: no escaping use of the allocation can have executed before
// (or is) the instruction at.
func (x *fx) notYetEscaped(h heapAlloc, at ssa.Instruction) bool {
	if at == nil || at.Block() == nil {
		return false
	}
	idx := func(in ssa.Instruction) int {
		for k, j := range in.Block().Instrs {
			if j == in {
				return k
			}
		}
		return -1
	}
	ai := idx(at)
	for _, u := range h.escapes {
		if u == at {
			return false
		}
		if u.Block() == at.Block() && idx(u) < ai {
			return false
		}
		for _, s := range u.Block().Succs {
			if x.blockReaches(s, at.Block()) {
				return false
			}
		}
	}
	return true
}

func (x *fx) newRef(prefix string) string {
	top := x.curTop()
	ref := x.fresh("ref."+prefix, "Int")
	x.assume("(= " + ref + " " + top + ")")
	x.freshRefs[ref] = true
	x.nver++
	nt := fmt.Sprintf("|$top@a%d|", x.nver)
	x.declare(nt, "Int")
	x.assume(fmt.Sprintf("(= %s (+ %s 1))", nt, top))
	n := x.newMem("store", x.curMem)
	n.name = "$top"
	n.term = nt
	x.curMem = n
	return ref
}

func (x *fx) zeroInit(t types.Type, ref string) {
	setRow := func(name string, elemT types.Type) {
		cur := x.resolve(x.curMem, name)
		row := fmt.Sprintf("((as const (Array %s %s)) %s)", x.idxSort(), x.memSort[name], x.zero(elemT))
		x.curMem = x.memStore(x.curMem, name, fmt.Sprintf("(store %s %s %s)", cur, ref, row))
	}
	switch u := t.Underlying().(type) {
	case *types.Struct:
		for k := 0; k < u.NumFields(); k++ {
			setRow(x.fieldMemName(t, u, k), u.Field(k).Type())
		}
	case *types.Array:
		et := u.Elem()
		for {
			a, ok := et.Underlying().(*types.Array)
			if !ok {
				break
			}
			et = a.Elem()
		}
		if st, ok := structOf(et); ok {
			for k := 0; k < st.NumFields(); k++ {
				setRow(x.fieldMemName(et, st, k), st.Field(k).Type())
			}
		} else {
			setRow(x.memName(et), et)
		}
	default:
		setRow(x.memName(t), t)
	}
}

func (x *fx) unop(i *ssa.UnOp) {
	v := x.valOf(i.X)
	switch i.Op {
	case token.MUL:
		x.nilCheck(v, "load")
		r := x.load(x.curMem, v)
		x.assume(x.valid(r.S, r.T, x.curTop()))
		if g, ok := i.X.(*ssa.Global); ok && types.IsInterface(r.T) && (strings.HasPrefix(g.Name(), "Err") || g.Name() == "EOF") {
			// sentinel error variables (io.EOF, ErrXxx) are never nil
			x.assume("(not (= " + r.S + " (mk-iface 0 0)))")
			x.assumptions["package-level sentinel error variables (ErrXxx, EOF) are non-nil"] = true
		}
		x.defVal(i, r)
	case token.NOT:
		x.defVal(i, &Val{T: i.Type(), S: not(v.S)})
	case token.SUB:
		if isFloat(i.Type()) {
			x.defVal(i, &Val{T: i.Type(), S: "(fp.neg " + v.S + ")"})
			return
		}
		z := &Val{T: i.Type(), S: x.zero(i.Type())}
		x.defVal(i, x.binop(token.SUB, z, v, i.Type(), true))
	case token.XOR:
		if x.mode == ModeBV {
			x.defVal(i, &Val{T: i.Type(), S: "(bvnot " + v.S + ")"})
		} else if intSigned(i.Type()) {
			x.defVal(i, &Val{T: i.Type(), S: "(- (- " + v.S + ") 1)"})
		} else {
			_, hi := intRange(i.Type())
			x.defVal(i, &Val{T: i.Type(), S: "(- " + hi.String() + " " + v.S + ")"})
		}
	default:
		panic(unsupported("unary operator " + i.Op.String()))
	}
}

func (x *fx) nilCheck(p *Val, what string) {
	if x.freshRefs[ptrRefArg(p.S)] {
		return
	}
	x.oblige("safe", "nil", "(not (= (p-ref "+p.S+") 0))", "nil pointer dereference ("+what+")")
}

func ptrRefArg(p string) string {
	// (mk-ptr ref off) -> ref
	if strings.HasPrefix(p, "(mk-ptr ") {
		f := strings.Fields(p[len("(mk-ptr "):])
		if len(f) > 0 {
			return f[0]
		}
	}
	return ""
}

// arrOff scales a slice offset (in elements) to the flattened offset when the element is an array.
func (x *fx) arrOff(off string, elem types.Type) string {
	if a, ok := elem.Underlying().(*types.Array); ok {
		return x.arrOff(x.imul(off, x.idxConst(a.Len())), a.Elem())
	}
	return off
}

func (x *fx) indexAddr(i *ssa.IndexAddr) {
	base := x.valOf(i.X)
	idx := x.toIdx(x.valOf(i.Index))
	switch u := i.X.Type().Underlying().(type) {
	case *types.Slice:
		x.boundsCheck(idx, slLen(base.S), "slice index")
		off := x.arrOff(x.iadd(slOff(base.S), idx), u.Elem())
		x.defVal(i, &Val{T: i.Type(), S: fmt.Sprintf("(mk-ptr %s %s)", slBase(base.S), off)})
	case *types.Pointer:
		a := u.Elem().Underlying().(*types.Array)
		x.boundsCheck(idx, x.idxConst(a.Len()), "array index")
		if len(base.Path) > 0 {
			p := append(append([]pathEl{}, base.Path...), pathEl{IsIdx: true, Idx: idx, T: a.Elem()})
			x.vals[i] = &Val{T: i.Type(), S: base.S, Path: p}
			return
		}
		x.nilCheck(base, "array index")
		off := x.iadd(ptrOff(base.S), x.arrOff(idx, a.Elem()))
		x.defVal(i, &Val{T: i.Type(), S: fmt.Sprintf("(mk-ptr %s %s)", ptrRef(base.S), off)})
	default:
		panic(unsupported("IndexAddr on " + i.X.Type().String()))
	}
}

func (x *fx) index(i *ssa.Index) {
	v := x.valOf(i.X)
	idx := x.toIdx(x.valOf(i.Index))
	switch u := i.X.Type().Underlying().(type) {
	case *types.Array:
		x.boundsCheck(idx, x.idxConst(u.Len()), "array index")
		r := fmt.Sprintf("(select %s %s)", v.S, idx)
		x.assume(x.valid(r, u.Elem(), x.curTop()))
		x.defVal(i, &Val{T: i.Type(), S: r})
	case *types.Basic: // string
		x.boundsCheck(idx, slLen(v.S), "string index")
		b := x.memRead(x.curMem, x.memName(tByte), slBase(v.S), x.iadd(slOff(v.S), idx))
		x.assume(x.inRange(b, tByte))
		x.defVal(i, &Val{T: i.Type(), S: b})
	default:
		panic(unsupported("Index on " + i.X.Type().String()))
	}
}

func (x *fx) fieldAddr(i *ssa.FieldAddr) {
	base := x.valOf(i.X)
	pt := i.X.Type().Underlying().(*types.Pointer).Elem()
	st := pt.Underlying().(*types.Struct)
	pe := pathEl{Field: i.Field, Name: st.Field(i.Field).Name(), T: st.Field(i.Field).Type(), ST: st, rootT: pt}
	if len(base.Path) == 0 {
		x.nilCheck(base, "field "+pe.Name)
	}
	p := append(append([]pathEl{}, base.Path...), pe)
	x.vals[i] = &Val{T: i.Type(), S: base.S, Path: p}
}

func (x *fx) slice(i *ssa.Slice) {
	v := x.valOf(i.X)
	var base, off, ln, cp string
	elem := types.Type(nil)
	switch u := i.X.Type().Underlying().(type) {
	case *types.Slice:
		base, off, ln, cp = slBase(v.S), slOff(v.S), slLen(v.S), slCap(v.S)
		elem = u.Elem()
	case *types.Basic: // string
		base, off, ln, cp = slBase(v.S), slOff(v.S), slLen(v.S), slLen(v.S)
	case *types.Pointer:
		a := u.Elem().Underlying().(*types.Array)
		if len(v.Path) > 0 {
			if x.c.Abstract {
				// abstracted mode: the slice is an unknown view (its contents are not
				// tracked) of the right length
				x.abstracted["slice of an array embedded in a struct (contents not tracked)"] = true
				r := x.havocVal("embslice", i.Type())
				if i.Low == nil && i.High == nil {
					x.assume("(= " + slLen(r.S) + " " + x.idxConst(a.Len()) + ")")
				}
				x.defVal(i, r)
				return
			}
			panic(unsupported("slicing an array embedded in a struct"))
		}
		x.nilCheck(v, "slice of array")
		base, off = ptrRef(v.S), ptrOff(v.S)
		if _, ok := a.Elem().Underlying().(*types.Array); ok {
			// pointer offsets count scalars, slice offsets count elements: an array of
			// arrays starts at an element boundary
			sc := arrScale(a.Elem())
			if x.mode == ModeBV {
				off = fmt.Sprintf("(bvsdiv %s %s)", off, x.idxConst(sc))
			} else {
				off = fmt.Sprintf("(div %s %d)", off, sc)
			}
		}
		ln, cp = x.idxConst(a.Len()), x.idxConst(a.Len())
		elem = a.Elem()
	default:
		panic(unsupported("Slice on " + i.X.Type().String()))
	}
	_ = elem
	lo := x.idxConst(0)
	if i.Low != nil {
		lo = x.toIdx(x.valOf(i.Low))
	}
	hi := ln
	if i.High != nil {
		hi = x.toIdx(x.valOf(i.High))
	}
	mx := cp
	if i.Max != nil {
		mx = x.toIdx(x.valOf(i.Max))
	}
	limit := cp
	if isString(i.X.Type()) {
		limit = ln
	}
	var g []string
	g = append(g, x.ile(x.idxConst(0), lo), x.ile(lo, hi))
	if i.Max != nil {
		g = append(g, x.ile(hi, mx), x.ile(mx, limit))
	} else {
		g = append(g, x.ile(hi, limit))
	}
	x.oblige("safe", "slice", x.and(g...), "slice bounds in range")
	r := fmt.Sprintf("(mk-slice %s %s %s %s)", base, x.iadd(off, lo), x.isub(hi, lo), x.isub(mx, lo))
	x.defVal(i, &Val{T: i.Type(), S: r})
}

func (x *fx) makeSlice(i *ssa.MakeSlice) {
	ln := x.toIdx(x.valOf(i.Len))
	cp := x.toIdx(x.valOf(i.Cap))
	x.oblige("safe", "makeslice", x.and(x.ile(x.idxConst(0), ln), x.ile(ln, cp)), "make: 0 <= len <= cap")
	x.assume(x.lenBound(cp))
	et := i.Type().Underlying().(*types.Slice).Elem()
	ref := x.newRef(i.Name())
	x.zeroInit(types.NewArray(et, 0), ref)
	x.defVal(i, &Val{T: i.Type(), S: fmt.Sprintf("(mk-slice %s %s %s %s)", ref, x.idxConst(0), ln, cp)})
}

func (x *fx) convert(i *ssa.Convert) {
	v := x.valOf(i.X)
	from, to := i.X.Type(), i.Type()
	_, fi := isInt(from)
	_, ti := isInt(to)
	switch {
	case fi && ti:
		x.defVal(i, &Val{T: to, S: x.convertInt(v.S, from, to)})
	case fi && isFloat(to):
		w := "11 53"
		if isF32(to) {
			w = "8 24"
		}
		if x.mode == ModeBV {
			op := "to_fp"
			if !intSigned(from) {
				op = "to_fp_unsigned"
			}
			x.defVal(i, &Val{T: to, S: fmt.Sprintf("((_ %s %s) RNE %s)", op, w, v.S)})
		} else {
			x.defVal(i, &Val{T: to, S: fmt.Sprintf("((_ to_fp %s) RNE (to_real %s))", w, v.S)})
		}
	case isFloat(from) && isFloat(to):
		w := "11 53"
		if isF32(to) {
			w = "8 24"
		}
		x.defVal(i, &Val{T: to, S: fmt.Sprintf("((_ to_fp %s) RNE %s)", w, v.S)})
	case isFloat(from) && ti:
		x.vals[i] = x.havocVal(i.Name(), to) // implementation-defined on overflow; value unconstrained
		x.assumptions["float to integer conversions are unconstrained"] = true
	case isString(to) || isString(from):
		// string <-> []byte / []rune: fresh immutable copy with the same length (contents abstracted for runes)
		r := x.havocVal(i.Name(), to)
		x.vals[i] = r
		if _, ok := from.Underlying().(*types.Basic); ok && fi {
			return // string(rune)
		}
		x.assume("(= " + slLen(r.S) + " " + slLen(v.S) + ")")
		x.abstracted["string conversion contents"] = true
	default:
		if _, ok := to.Underlying().(*types.Pointer); ok {
			// unsafe.Pointer -> *T
			x.vals[i] = &Val{T: to, S: v.S}
			x.assumptions["unsafe pointer conversion treated as reinterpretation at the same address"] = true
			return
		}
		if b, ok := to.Underlying().(*types.Basic); ok && b.Kind() == types.UnsafePointer {
			if len(v.Path) > 0 {
				panic(unsupported("unsafe.Pointer of interior pointer"))
			}
			x.vals[i] = &Val{T: to, S: v.S}
			return
		}
		panic(unsupported(fmt.Sprintf("conversion %s -> %s", from, to)))
	}
}

// materialize turns a pointer into a sub-object (field of a heap struct) into
// an opaque first-class pointer.  Only in abstracted mode: the pointer can then
// only flow to unmodelled callees, which havoc memory anyway.
func (x *fx) materialize(v *Val) *Val {
	if len(v.Path) == 0 {
		return v
	}
	x.needAbstract("interior pointer escapes (treated as an opaque pointer)")
	key := ""
	for _, pe := range v.Path {
		if pe.IsIdx {
			key += ".idx"
		} else {
			key += "." + pe.Name
		}
	}
	fn := "|interior" + sanitize(key) + "|"
	x.declareFun(fn, []string{"Ptr"}, "Int")
	r := fmt.Sprintf("(mk-ptr (%s %s) %s)", fn, v.S, x.idxConst(0))
	x.assume(fmt.Sprintf("(and (> (%s %s) 0) (< (%s %s) %s))", fn, v.S, fn, v.S, x.curTop()))
	return &Val{T: v.T, S: r}
}

func (x *fx) makeInterface(i *ssa.MakeInterface) {
	v := x.materialize(x.valOf(i.X))
	id := x.g.typeID(i.X.Type())
	s := x.sortOf(i.X.Type())
	box, unbox := x.boxFuns(s)
	bx := fmt.Sprintf("(%s %s)", box, v.S)
	x.assume(fmt.Sprintf("(= (%s %s) %s)", unbox, bx, v.S))
	x.defVal(i, &Val{T: i.Type(), S: fmt.Sprintf("(mk-iface %d %s)", id, bx)})
}

func (x *fx) boxFuns(sort string) (string, string) {
	k := strings.Trim(sanitize(sort), "|")
	box, unbox := "|box."+k+"|", "|unbox."+k+"|"
	x.declareFun(box, []string{sort}, "Int")
	x.declareFun(unbox, []string{"Int"}, sort)
	return box, unbox
}

func (x *fx) typeAssert(i *ssa.TypeAssert) {
	v := x.valOf(i.X)
	var ok, val string
	if types.IsInterface(i.AssertedType) {
		ok = x.fresh("assertok", "Bool")
		if i.X.Type().Underlying().(*types.Interface).NumMethods() >= 0 && types.AssignableTo(i.X.Type(), i.AssertedType) {
			// interface to a wider/equal interface: succeeds iff non-nil
			x.assume("(= " + ok + " (not (= (i-type " + v.S + ") 0)))")
		}
		x.assume("(=> " + ok + " (not (= (i-type " + v.S + ") 0)))")
		val = fmt.Sprintf("(ite %s %s (mk-iface 0 0))", ok, v.S)
	} else {
		id := x.g.typeID(i.AssertedType)
		ok = fmt.Sprintf("(= (i-type %s) %d)", v.S, id)
		_, unbox := x.boxFuns(x.sortOf(i.AssertedType))
		val = fmt.Sprintf("(%s (i-val %s))", unbox, v.S)
	}
	if i.CommaOk {
		x.vals[i] = &Val{T: i.Type(), Tup: []*Val{{T: i.AssertedType, S: val}, {T: tBool, S: ok}}}
		x.assume(x.valid(val, i.AssertedType, x.curTop()))
		return
	}
	x.oblige("safe", "typeassert", ok, "type assertion succeeds")
	x.assume(x.valid(val, i.AssertedType, x.curTop()))
	x.defVal(i, &Val{T: i.AssertedType, S: val})
}

func (x *fx) runDefers() {
	for k := len(x.defers) - 1; k >= 0; k-- {
		d := x.defers[k]
		// a defer statement that dominates this exit has certainly run; one that
		// cannot reach it has not; anything else is outside the subset
		if d.Block().Dominates(x.curBlock) {
			x.call(nil, d.Common())
		} else if x.blockReaches(d.Block(), x.curBlock) {
			if !x.c.Abstract {
				panic(unsupported("defer that runs only on some paths to a return"))
			}
			// abstracted mode: the deferred call runs iff the defer statement's
			// block was executed on this path
			cond, ok := x.blockPC[d.Block().Index]
			if !ok {
				panic(unsupported("defer inside a loop that runs only on some paths to a return"))
			}
			before, savedPC := x.curMem, x.curPC
			x.curPC = x.and(savedPC, cond)
			x.call(nil, d.Common())
			m := x.newMem("merge", nil)
			m.preds = []mergeEdge{{cond, x.curMem}, {"true", before}}
			x.curMem = m
			x.curPC = savedPC
			x.abstracted["conditionally deferred call: runs iff its defer statement was reached"] = true
		}
	}
}

// returnOrdinal: 1-based position of a return statement among the function's
// return statements in source order (0 for synthesized returns).
func (x *fx) returnOrdinal(r *ssa.Return) int {
	if !r.Pos().IsValid() {
		return 0
	}
	seen := map[token.Pos]bool{}
	var ps []token.Pos
	for _, b := range x.fn.Blocks {
		for _, in := range b.Instrs {
			if rr, ok := in.(*ssa.Return); ok && rr.Pos().IsValid() && !seen[rr.Pos()] {
				seen[rr.Pos()] = true
				ps = append(ps, rr.Pos())
			}
		}
	}
	sort.Slice(ps, func(a, b int) bool { return ps[a] < ps[b] })
	for k, p := range ps {
		if p == r.Pos() {
			return k + 1
		}
	}
	return 0
}

// ret: check postconditions at a return site.
func (x *fx) ret(i *ssa.Return) {
	x.retCount++
	env := &specEnv{mem: x.curMem, pkg: x.fn.Pkg.Pkg, top: x.curTop()}
	pe := x.paramEnv(x.curMem)
	res := x.fn.Signature.Results()
	env.look = func(name string) *Val {
		if strings.HasPrefix(name, "result") {
			k := 0
			if name != "result" {
				fmt.Sscanf(name[6:], "%d", &k)
			}
			if k < len(i.Results) {
				return x.valOf(i.Results[k])
			}
		}
		for k := 0; k < res.Len(); k++ {
			if res.At(k).Name() == name && name != "" && name != "_" {
				return x.valOf(i.Results[k])
			}
		}
		if v := pe.look(name); v != nil {
			return v
		}
		// locals visible at this return (their value there)
		return x.instrEnv(i).look(name)
	}
	env.old = x.paramEnv(x.entryMem)
	// assertions attached to this return statement (assert return=N, N in source order)
	if len(x.c.Asserts) > 0 {
		ord := x.returnOrdinal(i)
		for k, cl := range x.c.Asserts {
			if cl.Kind == "assert:return$" && cl.Loop == ord {
				if x.assertSeen == nil {
					x.assertSeen = map[int]bool{}
				}
				x.assertSeen[k] = true
				g, skip := x.evalEnsures(cl.E, env)
				if skip {
					continue
				}
				if o := x.oblige("assert", fmt.Sprintf("return#%d:%s", ord, clauseLabel(cl, k)), g, fmt.Sprintf("assertion at return #%d: %s", ord, cl.Src)); o != nil {
					o.Src, o.Line = cl.Src, cl.Line
				}
			}
		}
	}
	// vacuity canary: this return must be reachable (placed before the
	// postconditions, which are assumed once checked)
	x.obs = append(x.obs, &Oblig{Fn: x.c.Pkg + "." + x.c.Name, Name: fmt.Sprintf("%s.%s#vacuity:ret%d", x.pkgShort(), x.cname(), x.retCount), Kind: "canary", PC: x.curPC, Goal: "false", NSteps: len(x.steps), Expect: "sat", Desc: "return is reachable under the contract", fx: x})
	for k, cl := range x.c.Ensures {
		g, skip := x.evalEnsures(cl.E, env)
		if skip {
			continue // mentions a local variable that is not in scope at this return
		}
		if x.ensuresEvaluated == nil {
			x.ensuresEvaluated = map[int]bool{}
		}
		x.ensuresEvaluated[k] = true
		if o := x.oblige("post", clauseLabel(cl, k), g, "postcondition: "+cl.Src); o != nil {
			o.Src, o.Line = cl.Src, cl.Line
			o.Name = fmt.Sprintf("%s.%s#post:%s@ret%d", x.pkgShort(), x.cname(), clauseLabel(cl, k), x.retCount)
		}
	}
}

func isF32(t types.Type) bool {
	b, ok := t.Underlying().(*types.Basic)
	return ok && b.Kind() == types.Float32
}

func (x *fx) blockReaches(from, to *ssa.BasicBlock) bool {
	seen := map[int]bool{}
	var dfs func(b *ssa.BasicBlock) bool
	dfs = func(b *ssa.BasicBlock) bool {
		if b == to {
			return true
		}
		if seen[b.Index] {
			return false
		}
		seen[b.Index] = true
		for _, s := range b.Succs {
			if dfs(s) {
				return true
			}
		}
		return false
	}
	return dfs(from)
}

// exitChain returns the chain of blocks b, b', ..., R where every block has
// exactly one successor (the next one), all but the first have exactly one
// predecessor, none is a loop header, and R ends in a Return; nil otherwise.
func (x *fx) exitChain(b *ssa.BasicBlock) []*ssa.BasicBlock {
	var chain []*ssa.BasicBlock
	cur := b
	for steps := 0; steps < 8; steps++ {
		if x.loops[cur.Index] != nil || len(cur.Instrs) == 0 {
			return nil
		}
		chain = append(chain, cur)
		switch cur.Instrs[len(cur.Instrs)-1].(type) {
		case *ssa.Return:
			return chain
		case *ssa.Jump:
			nxt := cur.Succs[0]
			if len(nxt.Preds) != 1 {
				return nil
			}
			cur = nxt
		default:
			return nil
		}
	}
	return nil
}

type cellRef struct {
	ref      string
	closures []*ssa.MakeClosure
}

// capturedOnly: the alloc escapes only by being bound into closures created in
// this function (it is otherwise just loaded, stored and addressed).
func capturedOnly(a *ssa.Alloc) ([]*ssa.MakeClosure, bool) {
	var cls []*ssa.MakeClosure
	var ok func(v ssa.Value, depth int) bool
	ok = func(v ssa.Value, depth int) bool {
		if depth > 4 || v.Referrers() == nil {
			return false
		}
		for _, r := range *v.Referrers() {
			switch u := r.(type) {
			case *ssa.UnOp, *ssa.DebugRef:
			case *ssa.Store:
				if u.Val == v {
					return false // the address itself is stored somewhere
				}
			case *ssa.MakeClosure:
				cls = append(cls, u)
			case *ssa.FieldAddr:
				if !ok(u, depth+1) {
					return false
				}
			case *ssa.IndexAddr:
				if !ok(u, depth+1) {
					return false
				}
			default:
				return false
			}
		}
		return true
	}
	if !ok(a, 0) {
		return nil, false
	}
	return cls, len(cls) > 0
}

// immutableCell: the captured variable is stored to exactly once in the
// enclosing function and never stored to by any closure that captures it.
func immutableCell(a *ssa.Alloc, cls []*ssa.MakeClosure) bool {
	stores := 0
	for _, r := range *a.Referrers() {
		if st, ok := r.(*ssa.Store); ok && st.Addr == a {
			stores++
		}
		switch r.(type) {
		case *ssa.FieldAddr, *ssa.IndexAddr:
			return false // addressed in parts: could be written through
		}
	}
	if stores > 1 {
		return false
	}
	var onlyLoaded func(v ssa.Value, depth int) bool
	onlyLoaded = func(v ssa.Value, depth int) bool {
		if depth > 3 || v.Referrers() == nil {
			return false
		}
		for _, r := range *v.Referrers() {
			switch u := r.(type) {
			case *ssa.UnOp, *ssa.DebugRef:
			case *ssa.MakeClosure:
				fn := u.Fn.(*ssa.Function)
				for k, b := range u.Bindings {
					if b == v && !onlyLoaded(fn.FreeVars[k], depth+1) {
						return false
					}
				}
			default:
				return false
			}
		}
		return true
	}
	for _, cl := range cls {
		fn := cl.Fn.(*ssa.Function)
		for k, b := range cl.Bindings {
			if b == a && !onlyLoaded(fn.FreeVars[k], 0) {
				return false
			}
		}
	}
	return true
}

func uniqStr(ss []string) []string {
	m := map[string]bool{}
	var out []string
	for _, s := range ss {
		if !m[s] {
			m[s] = true
			out = append(out, s)
		}
	}
	return out
}

// rootAlloc: the local variable an address is derived from (through field and index selection).
// rootFieldMem: for a store address inside the struct local a (a.f, a.f.g, a.f[i]...),
// the name of the memory holding a's top-level field f; "" when the store is not
// through a field of a.
func (x *fx) rootFieldMem(addr ssa.Value, a *ssa.Alloc) string {
	v := addr
	for depth := 0; depth < 6; depth++ {
		switch u := v.(type) {
		case *ssa.FieldAddr:
			if u.X == ssa.Value(a) {
				t := a.Type().Underlying().(*types.Pointer).Elem()
				if st, ok := t.Underlying().(*types.Struct); ok {
					return x.fieldMemName(t, st, u.Field)
				}
				return ""
			}
			v = u.X
		case *ssa.IndexAddr:
			v = u.X
		default:
			return ""
		}
	}
	return ""
}

// rootValue: the pointer an address is derived from through field and index selections.
func rootValue(v ssa.Value) ssa.Value {
	for depth := 0; depth < 6; depth++ {
		switch u := v.(type) {
		case *ssa.FieldAddr:
			v = u.X
		case *ssa.IndexAddr:
			v = u.X
		default:
			return v
		}
	}
	return v
}

func rootAlloc(v ssa.Value) *ssa.Alloc {
	for depth := 0; depth < 6; depth++ {
		switch u := v.(type) {
		case *ssa.Alloc:
			return u
		case *ssa.FieldAddr:
			v = u.X
		case *ssa.IndexAddr:
			v = u.X
		default:
			return nil
		}
	}
	return nil
}

// evalEnsures evaluates a postcondition at a return; a clause that mentions a
// local variable of the function which is not in scope at this return is
// skipped there (it constrains only the returns where the variable exists).
func (x *fx) evalEnsures(e *Expr, env *specEnv) (g string, skip bool) {
	defer func() {
		if r := recover(); r != nil {
			if se, ok := r.(specErr); ok && strings.HasPrefix(string(se), "unbound name ") {
				name := strings.Fields(strings.TrimPrefix(string(se), "unbound name "))[0]
				if x.isLocalName(name) {
					if os.Getenv("VCGEN_DEBUG_SKIP") != "" {
						fmt.Fprintf(os.Stderr, "skip ensures %s at ret%d: %s\n", e, x.retCount, string(se))
					}
					skip = true
					return
				}
			}
			panic(r)
		}
	}()
	return x.evalBool(e, env), false
}

func (x *fx) isLocalName(name string) bool {
	for _, b := range x.fn.Blocks {
		for _, in := range b.Instrs {
			if d, ok := in.(*ssa.DebugRef); ok && d.Object() != nil && d.Object().Name() == name {
				return true
			}
		}
	}
	return false
}
